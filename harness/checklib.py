"""Common plumbing of the checks: context, evidence, findings, verdict lines."""
from __future__ import annotations

import json
import os
import shutil
import sys
import time
import traceback
from typing import Any, Dict, List, Optional

VERIF = os.path.dirname(os.path.dirname(os.path.abspath(__file__)))
EVIDENCE_DIR = os.path.join(VERIF, 'evidence')
REPLAY_DIR = os.path.join(VERIF, 'replays')
WORK_DIR = os.environ.get('VERIF_WORK', os.path.join(VERIF, 'work'))
KNOWN_FINDINGS = os.path.join(VERIF, 'known_findings.json')
if os.path.abspath(os.environ.get('VERIF_REPO', '/repo')) != '/repo':
    # runs against a scratch copy (mutant self-tests) must not touch the committed evidence
    EVIDENCE_DIR = os.path.join(WORK_DIR, 'evidence')
    REPLAY_DIR = os.path.join(WORK_DIR, 'replays')


def load_known_findings() -> List[dict]:
    try:
        with open(KNOWN_FINDINGS) as f:
            data = json.load(f)
    except FileNotFoundError:
        return []
    return [e for e in data.get('findings', []) if e.get('status') == 'known']


class Ctx:
    def __init__(self, prop: str, tier: str, seed: int, replaying: bool = False):
        self.replaying = replaying
        self.prop = prop
        self.tier = tier
        self.seed = seed
        self.quick = tier == 'quick'
        self.t0 = time.time()
        self.work = os.path.join(WORK_DIR, prop)
        shutil.rmtree(self.work, ignore_errors=True)
        os.makedirs(self.work, exist_ok=True)
        os.makedirs(EVIDENCE_DIR, exist_ok=True)
        os.makedirs(REPLAY_DIR, exist_ok=True)
        for fn in os.listdir(REPLAY_DIR):
            if fn.startswith(f'{prop}_{tier}_') and not replaying:
                os.remove(os.path.join(REPLAY_DIR, fn))
        self.cov: Dict[str, Any] = {
            'states': 0, 'transitions': 0, 'traces_validated_against_impl': 0,
            'evaluations': 0, 'distinct_nontrivial': 0, 'samples': [], 'rule': '',
            'exhaustive': False, 'parts': [], 'drift': [], 'model_runs': [],
        }
        self.assumptions: List[str] = []
        self.violations: List[dict] = []
        self.known_hits: List[dict] = []
        self.known = [k for k in load_known_findings() if k['property'] == prop]
        self._n_replays = 0

    # ---------------------------------------------------------------- coverage
    def log(self, *a):
        print(f'[{self.prop} {time.time() - self.t0:6.1f}s]', *a, flush=True)

    def add_tlc(self, res, what: str):
        """account a TLC run (a TLCResult or dict with generated/distinct)"""
        gen = res.generated if hasattr(res, 'generated') else res['generated']
        dis = res.distinct if hasattr(res, 'distinct') else res['distinct']
        self.cov['states'] += dis
        self.cov['transitions'] += max(gen - 1, 0) if gen else 0
        self.cov['model_runs'].append({'what': what, 'states_generated': gen, 'distinct_states': dis})

    def add_part(self, name: str, **kw):
        d = {'part': name, 'at_s': round(time.time() - self.t0, 1)}
        d.update(kw)
        self.cov['parts'].append(d)

    def add_counts(self, evaluations=0, nontrivial=0, traces=0):
        self.cov['evaluations'] += int(evaluations)
        self.cov['distinct_nontrivial'] += int(nontrivial)
        self.cov['traces_validated_against_impl'] += int(traces)

    def sample(self, s, limit=6):
        if len(self.cov['samples']) < limit:
            self.cov['samples'].append(s)

    def drift(self, what):
        if len(self.cov['drift']) < 50:
            self.cov['drift'].append(what)

    # --------------------------------------------------------------- verdicts
    def violation(self, what: str, replay: dict, key: Optional[str] = None):
        """report a violation unless it matches a known finding"""
        for k in self.known:
            if _matches(k, what, replay, key):
                if not any(h['id'] == k['id'] for h in self.known_hits):
                    self.known_hits.append({'id': k['id'], 'what': k['what'], 'example': what})
                return
        if len(self.violations) >= 5:
            self.violations.append({'what': what, 'replay': None}) if len(self.violations) < 1000 else None
            return
        self._n_replays += 1
        path = os.path.join(REPLAY_DIR, f'{self.prop}_{"replay" if self.replaying else self.tier}_{self._n_replays:02d}.json')
        with open(path, 'w') as f:
            json.dump({'property': self.prop, 'what': what, 'replay': replay}, f, indent=1)
        self.violations.append({'what': what, 'replay': path})

    # ------------------------------------------------------------------ finish
    def finish(self, level='model_checking') -> int:
        wall = time.time() - self.t0
        cov = dict(self.cov)
        if not cov['samples']:
            cov['samples'] = ['(no sample recorded)']
        cov['known_findings'] = self.known_hits
        cov['violations_found'] = [v['what'] for v in self.violations[:20]]
        ev = {
            'property_id': self.prop, 'tier': self.tier, 'seed': self.seed, 'level': level,
            'coverage': cov, 'assumptions': self.assumptions, 'wall_s': round(wall, 2),
            'violations': len(self.violations),
        }
        # a replay run re-judges one stored case: it must not overwrite the evidence of the last full run
        with open(os.path.join(self.work if self.replaying else EVIDENCE_DIR, f'{self.prop}.json'), 'w') as f:
            json.dump(ev, f, indent=1, default=str)
        for h in self.known_hits:
            print(f'KNOWN-FINDING: property={self.prop} {h["id"]}: {h["what"]}')
        seen = set()
        for v in self.violations:
            if v['replay'] and v['replay'] not in seen:
                seen.add(v['replay'])
                print(f'VIOLATION property={self.prop} replay={v["replay"]}  # {v["what"]}')
        if self.violations:
            print(f'{self.prop}: {len(self.violations)} violation(s) in {wall:.1f}s')
            return 1
        print(f'{self.prop}: OK ({self.tier}, {wall:.1f}s; states={cov["states"]} transitions={cov["transitions"]} '
              f'traces={cov["traces_validated_against_impl"]} evaluations={cov["evaluations"]})')
        return 0


def _matches(known: dict, what: str, replay: dict, key: Optional[str]) -> bool:
    m = known.get('match', {})
    if 'key' in m:
        return key is not None and key == m['key']
    if 'what_contains' in m:
        return all(s in what for s in m['what_contains'])
    return False


def main(run_fn, prop: str):
    import argparse

    ap = argparse.ArgumentParser()
    ap.add_argument('--tier', default=os.environ.get('VERIF_TIER', 'quick'))
    ap.add_argument('--replay', default=None)
    args = ap.parse_args()
    seed = int(os.environ.get('VERIF_SEED', '0') or 0)
    ctx = Ctx(prop, args.tier, seed, replaying=bool(args.replay))
    try:
        run_fn(ctx, replay=args.replay) if args.replay else run_fn(ctx)
    except Exception:
        traceback.print_exc()
        print(f'{prop}: machinery failure', file=sys.stderr)
        sys.exit(2)
    sys.exit(ctx.finish())
