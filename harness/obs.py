"""Observation records for Trace_Obs / Trace_Vis: run the real observation and
visibility functions and log inputs and outputs."""
from __future__ import annotations

import json
import os
import random
from typing import Dict, List, Optional

from harness import boot  # noqa: F401
from harness import proj, steps
from harness.tlc import run_many

from gym_gridverse.envs import observation_functions as observation_fs
from gym_gridverse.envs import visibility_functions as visibility_fs
from gym_gridverse.geometry import Area, Orientation, Position
from gym_gridverse.utils.raytracing import compute_rays_fancy
from gym_gridverse.debugging import reset_gv_debug

O = steps.O
OBS_FUNCTIONS = ['fully_transparent', 'partially_occluded', 'raytracing', 'stochastic_raytracing']
DETERMINISTIC = OBS_FUNCTIONS[:3]

# distinct transparent objects used to label cells
LABELS = ([O('Exit', 0, c) for c in steps.ALL_COLORS] + [O('Key', 0, c) for c in steps.ALL_COLORS[1:]]
          + [O('Telepod', 0, c) for c in steps.ALL_COLORS[1:]] + [O('Beacon', 0, c) for c in steps.ALL_COLORS[1:]]
          + [O('MovingObstacle'), O('Door', 0, 'RED'), O('Door', 0, 'BLUE'), O('Door', 0, 'GREEN')])


def labelled_grid(h, w):
    assert h * w <= len(LABELS)
    return [[LABELS[y * w + x] for x in range(w)] for y in range(h)]


def fan_key(h, w, y, x):
    return f'h{h}w{w}y{y}x{x}'


_fan_cache: Dict[str, list] = {}


def fan_for(h, w, y, x):
    """the code's fan of rays for a view of shape h x w with the agent at (y, x)"""
    key = fan_key(h, w, y, x)
    if key not in _fan_cache:
        rays = compute_rays_fancy(Position(y, x), Area((0, h - 1), (0, w - 1)))
        _fan_cache[key] = [[[p.y, p.x] for p in ray] for ray in rays]
    return key, _fan_cache[key]


def view_geometry(area_json):
    (ymin, ymax), (xmin, xmax) = area_json
    return ymax - ymin + 1, xmax - xmin + 1, -ymin, -xmin


def needs_fan(fname):
    return fname in ('raytracing', 'stochastic_raytracing')


def area_valid_for(fname, area_json):
    (ymin, ymax), (xmin, xmax) = area_json
    if fname == 'partially_occluded':
        return ymax == 0 and xmin <= 0 <= xmax and ymin <= 0
    if needs_fan(fname):
        return ymin <= 0 <= ymax and xmin <= 0 <= xmax
    return True


_of_cache = {}


def obs_function(fname, area_json):
    key = (fname, json.dumps(area_json))
    if key not in _of_cache:
        _of_cache[key] = observation_fs.factory(fname, area=proj.area_from_json(area_json))
    return _of_cache[key]


def observe(fname, area_json, st_json, seed=None):
    import numpy as np

    st = proj.state_from_json(st_json)
    f = obs_function(fname, area_json)
    try:
        ob = f(st, rng=np.random.default_rng(seed))
        return 'ok', proj.obs_to_json(ob)
    except Exception as e:
        return proj.outcome_class(e), None


def obs_record(rec_id, fname, area_json, st_json, want, ospace=None, seed=None):
    outcome, ob = observe(fname, area_json, st_json, seed)
    fankey = ''
    if needs_fan(fname) and area_valid_for(fname, area_json):
        h, w, y, x = view_geometry(area_json)
        fankey, _ = fan_for(h, w, y, x)
    return {'id': rec_id, 'kind': 'obs', 'want': want, 'fname': fname, 'area': area_json, 'st': st_json,
            'outcome': outcome, 'ob': ob if ob is not None else st_json, 'fankey': fankey,
            'ospace': [] if ospace is None else [ospace]}


def pair_record(rec_id, fname, area_json, st_json, cell, new_obj, want):
    """metamorphic pair: replace world cell `cell` by `new_obj`"""
    st2 = json.loads(json.dumps(st_json))
    st2['grid'][cell[0]][cell[1]] = new_obj
    o1, ob1 = observe(fname, area_json, st_json)
    o2, ob2 = observe(fname, area_json, st2)
    raised = not (o1 == 'ok' and o2 == 'ok')
    if raised:
        ob1 = ob2 = st_json
    return {'id': rec_id, 'kind': 'pair', 'raised': raised, 'outcomes': [o1, o2], 'want': want, 'fname': fname, 'area': area_json, 'st': st_json, 'st2': st2,
            'cell': list(cell), 'ob': ob1, 'ob2': ob2}


def rotate_world(st_json, r):
    """harness-side world rotation by the code-independent index arithmetic (re-checked by TLC)"""
    g = st_json['grid']
    H, W = len(g), len(g[0])
    y, x = st_json['pos']
    if r == 'F':
        g2, p2 = g, [y, x]
    elif r == 'B':
        g2 = [[g[H - 1 - i][W - 1 - j] for j in range(W)] for i in range(H)]
        p2 = [H - 1 - y, W - 1 - x]
    elif r == 'R':
        g2 = [[g[j][W - 1 - i] for j in range(H)] for i in range(W)]
        p2 = [W - 1 - x, y]
    else:
        g2 = [[g[H - 1 - j][i] for j in range(H)] for i in range(W)]
        p2 = [x, H - 1 - y]
    idx = {'F': 0, 'R': 1, 'B': 2, 'L': 3}
    names = ['F', 'R', 'B', 'L']
    o2 = names[(idx[st_json['ori']] - idx[r]) % 4]
    return {'grid': g2, 'pos': p2, 'ori': o2, 'item': st_json['item']}


def rot_record(rec_id, fname, area_json, st_json, r, want):
    st2 = rotate_world(st_json, r)
    o1, ob1 = observe(fname, area_json, st_json)
    o2, ob2 = observe(fname, area_json, st2)
    raised = not (o1 == 'ok' and o2 == 'ok')
    if raised:
        ob1 = ob2 = st_json
    return {'id': rec_id, 'kind': 'rot', 'raised': raised, 'outcomes': [o1, o2], 'want': want, 'fname': fname, 'area': area_json, 'st': st_json, 'st2': st2,
            'rot': r, 'ob': ob1, 'ob2': ob2}


# ------------------------------------------------------------------ running
def _worker(args):
    path, jobs = args
    reset_gv_debug(True)
    recs = []
    hidden = shown = 0
    for job in jobs:
        kind = job.pop('kind')
        rec = {'obs': obs_record, 'pair': pair_record, 'rot': rot_record}[kind](**job)
        recs.append(rec)
    fans = {}
    for rec in recs:
        k = rec.get('fankey', '')
        if k:
            fans[k] = _fan_cache[k]
    nontrivial = set()
    with open(path, 'w') as f:
        f.write(json.dumps({'id': -1, 'kind': 'fans', 'want': [], 'fans': fans}, separators=(',', ':')) + '\n')
        for rec in recs:
            f.write(json.dumps(rec, separators=(',', ':')) + '\n')
            cells = [c['t'] for row in rec['ob']['grid'] for c in row]
            if any(t == 'Hidden' for t in cells) and any(t != 'Hidden' for t in cells):
                nontrivial.add(hash(json.dumps(rec['ob'], sort_keys=True)))
    return len(recs), len(nontrivial)


def run_jobs(workdir, jobs, nshards=16, tag='obs'):
    import multiprocessing as mp

    os.makedirs(workdir, exist_ok=True)
    nshards = max(1, min(nshards, len(jobs)))
    per = (len(jobs) + nshards - 1) // nshards
    parts = [jobs[i * per:(i + 1) * per] for i in range(nshards)]
    parts = [p for p in parts if p]
    paths = [os.path.join(workdir, f'{tag}_{i:02d}.ndjson') for i in range(len(parts))]
    with mp.Pool(min(16, len(parts))) as pool:
        counts = pool.map(_worker, [(p, part) for p, part in zip(paths, parts)])
    return paths, {'records': sum(c[0] for c in counts), 'nontrivial': sum(c[1] for c in counts)}


def validate(paths, module='Trace_Obs', parallel=16):
    results = run_many([dict(module=module, env={'TRACE_FILE': p}, workers=1, timeout=3600) for p in paths], parallel=parallel)
    bad, generated, distinct, done = [], 0, 0, 0
    for p, res in zip(paths, results):
        generated += res.generated
        distinct += res.distinct
        d = res.find('DONE')
        if not d:
            raise RuntimeError(f'TLC did not finish {p}:\n{res.raw[-2000:]}')
        done += d[0][1]
        for t in res.find('BAD'):
            bad.append({'shard': p, 'id': t[1], 'clauses': sorted(t[2]['set'])})
        if res.find('UNPARSED'):
            raise RuntimeError(f'unparsable TLC output: {res.find("UNPARSED")[0]}')
    return bad, {'generated': generated, 'distinct': distinct, 'done': done}


def load_record(shard, rec_id):
    with open(shard) as f:
        for line in f:
            r = json.loads(line)
            if r['id'] == rec_id:
                return r
    return None


# ---------------------------------------------------------------- generators
def random_state(rng: random.Random, h, w, p_opaque=0.25, edge_bias=0.5):
    grid = []
    for y in range(h):
        row = []
        for x in range(w):
            u = rng.random()
            if u < p_opaque:
                row.append(rng.choice([O('Wall'), O('Door', 1, 'RED'), O('Door', 2, 'BLUE'), O('Wall')]))
            elif u < p_opaque + 0.25:
                row.append(rng.choice(LABELS + [O('Box', 0, 'NONE', O('Key', 0, 'RED'))]))
            else:
                row.append(steps.FLOOR)
        grid.append(row)
    if rng.random() < edge_bias:
        y = rng.choice([0, h - 1, rng.randrange(h)])
        x = rng.choice([0, w - 1, rng.randrange(w)])
    else:
        y, x = rng.randrange(h), rng.randrange(w)
    return {'grid': grid, 'pos': [y, x], 'ori': rng.choice(steps.ORIS), 'item': rng.choice(steps.HELD)}


def random_area(rng: random.Random, fname, maxext=4):
    while True:
        ymin = -rng.randint(0, maxext)
        ymax = 0 if fname == 'partially_occluded' else rng.randint(0, maxext if rng.random() < 0.5 else 0)
        xmin = -rng.randint(0, maxext)
        xmax = rng.randint(0, maxext)
        if fname == 'fully_transparent' and rng.random() < 0.3:
            # areas that need not contain the agent
            ymin, ymax = sorted([rng.randint(-maxext, maxext), rng.randint(-maxext, maxext)])
            xmin, xmax = sorted([rng.randint(-maxext, maxext), rng.randint(-maxext, maxext)])
        a = [[ymin, ymax], [xmin, xmax]]
        if area_valid_for(fname, a):
            return a
