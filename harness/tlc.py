"""Run TLC and parse its output."""
from __future__ import annotations

import concurrent.futures as cf
import os
import re
import shutil
import subprocess
import tempfile
import time
from dataclasses import dataclass, field
from typing import Dict, List, Optional

VERIF = os.path.dirname(os.path.dirname(os.path.abspath(__file__)))
SPEC = os.path.join(VERIF, 'spec')
JAR = '/opt/veriftools/tla/tla2tools.jar:/opt/veriftools/tla/CommunityModules-deps.jar'


class TLCError(RuntimeError):
    pass


@dataclass
class TLCResult:
    module: str
    rc: int
    generated: int = 0
    distinct: int = 0
    depth: int = 0
    tuples: List[list] = field(default_factory=list)  # parsed PrintT tuples
    raw: str = ''
    wall: float = 0.0
    violated: Optional[str] = None  # name of a violated invariant/property, if any
    coverage: Dict[str, int] = field(default_factory=dict)

    def find(self, tag: str) -> List[list]:
        return [t for t in self.tuples if t and t[0] == tag]


# ---------------------------------------------------------------- TLA+ values
def _parse_value(s: str, i: int):
    while s[i].isspace():
        i += 1
    if s.startswith('<<', i):
        i += 2
        out = []
        while True:
            while s[i].isspace():
                i += 1
            if s.startswith('>>', i):
                return out, i + 2
            v, i = _parse_value(s, i)
            out.append(v)
            while s[i].isspace():
                i += 1
            if s[i] == ',':
                i += 1
    if s[i] == '{':
        i += 1
        out = []
        while True:
            while s[i].isspace():
                i += 1
            if s[i] == '}':
                return {'set': out}, i + 1
            v, i = _parse_value(s, i)
            out.append(v)
            while s[i].isspace():
                i += 1
            if s[i] == ',':
                i += 1
    if s[i] == '[':
        # record [a |-> v, ...]
        i += 1
        out = {}
        while True:
            while s[i].isspace():
                i += 1
            if s[i] == ']':
                return out, i + 1
            m = re.compile(r'([A-Za-z_][A-Za-z_0-9]*)\s*\|->').match(s, i)
            if not m:
                raise ValueError('bad record at %d: %r' % (i, s[i : i + 40]))
            i = m.end()
            v, i = _parse_value(s, i)
            out[m.group(1)] = v
            while s[i].isspace():
                i += 1
            if s[i] == ',':
                i += 1
    if s[i] == '"':
        j = i + 1
        buf = ''
        while s[j] != '"':
            if s[j] == '\\':
                j += 1
            buf += s[j]
            j += 1
        return buf, j + 1
    m = re.compile(r'-?\d+').match(s, i)
    if m:
        return int(m.group(0)), m.end()
    m = re.compile(r'TRUE|FALSE').match(s, i)
    if m:
        return m.group(0) == 'TRUE', m.end()
    m = re.compile(r'[A-Za-z_][A-Za-z_0-9]*').match(s, i)
    if m:
        return m.group(0), m.end()
    raise ValueError('cannot parse TLA+ value at %d: %r' % (i, s[i : i + 40]))


def parse_tla_value(s: str):
    v, _ = _parse_value(s + ' ', 0)
    return v


def _extract_tuples(text: str) -> List[list]:
    out = []
    lines = text.split('\n')
    k = 0
    while k < len(lines):
        line = lines[k]
        if re.match(r'^<<\s*"', line):
            buf = line
            depth = buf.count('<<') - buf.count('>>')
            while depth > 0 and k + 1 < len(lines):
                k += 1
                buf += ' ' + lines[k]
                depth = buf.count('<<') - buf.count('>>')
            try:
                out.append(parse_tla_value(buf))
            except Exception:
                out.append(['UNPARSED', buf])
        k += 1
    return out


def run_tlc(
    module: str,
    cfg: Optional[str] = None,
    env: Optional[Dict[str, str]] = None,
    workers: int = 1,
    timeout: int = 3600,
    extra: Optional[List[str]] = None,
    heap: str = '3g',
    dfs: bool = False,
    check: bool = True,
    spec_dir: str = SPEC,
) -> TLCResult:
    """run TLC on spec/<module>.tla with spec/<cfg or module>.cfg"""
    meta = tempfile.mkdtemp(prefix='tlc_', dir=os.environ.get('VERIF_TMP', '/tmp'))
    cmd = ['java', '-XX:+UseSerialGC' if workers == 1 else '-XX:+UseParallelGC', f'-Xmx{heap}', '-XX:CICompilerCount=2', '-Xshare:auto',
           f'-Djava.io.tmpdir={meta}']   # TLC leaves an empty tlc-* directory per run in the temp dir: keep it inside the metadir, removed below
    if dfs:
        cmd.append('-Dtlc2.tool.queue.IStateQueue=StateDeque')
    cmd += [
        '-cp', JAR, 'tlc2.TLC',
        '-config', (cfg or module) + ('' if (cfg or module).endswith('.cfg') else '.cfg'),
        '-workers', str(workers), '-metadir', meta, '-noGenerateSpecTE',
    ]
    cmd += list(extra or [])
    cmd.append(module + '.tla')
    e = dict(os.environ)
    e.update(env or {})
    t0 = time.time()
    try:
        p = subprocess.run(cmd, cwd=spec_dir, env=e, capture_output=True, text=True, timeout=timeout)
        out, rc = p.stdout + p.stderr, p.returncode
    except subprocess.TimeoutExpired as ex:
        out = (ex.stdout or b'').decode() if isinstance(ex.stdout, bytes) else (ex.stdout or '')
        out += '\nTIMEOUT'
        rc = 124
    finally:
        shutil.rmtree(meta, ignore_errors=True)
    res = TLCResult(module=module, rc=rc, raw=out, wall=time.time() - t0)
    m = None
    for m in re.finditer(r'(\d+) states generated, (\d+) distinct states found', out):
        pass
    if m:
        res.generated, res.distinct = int(m.group(1)), int(m.group(2))
    m = re.search(r'depth of the complete state graph search is (\d+)', out)
    if m:
        res.depth = int(m.group(1))
    m = re.search(r'Invariant (\S+) is violated', out) or re.search(r'Action property (\S+) is violated', out) or re.search(r'Temporal properties were violated', out)
    if m:
        res.violated = m.group(1) if m.groups() else 'temporal'
    res.tuples = _extract_tuples(out)
    if check:
        bad = rc not in (0,) and res.violated is None
        if 'TIMEOUT' in out[-20:]:
            bad = True
        if bad or re.search(r'^Error: ', out, re.M) and res.violated is None and rc != 0:
            raise TLCError(f'TLC failed on {module} (rc={rc}):\n' + out[-3000:])
    return res


def run_many(jobs: List[dict], parallel: int = 8) -> List[TLCResult]:
    """run several TLC jobs concurrently (each job = kwargs of run_tlc)"""
    with cf.ThreadPoolExecutor(max_workers=parallel) as ex:
        futs = [ex.submit(run_tlc, **j) for j in jobs]
        return [f.result() for f in futs]


def write_cfg(path, init='Init', next_='Next', constants=None, invariants=(), properties=(),
              constraints=(), view=None, postcondition=None, deadlock=False, specification=None,
              action_constraints=()):
    """write a TLC configuration file; constants: name -> literal text or ('<-', defname)"""
    lines = []
    if specification:
        lines.append(f'SPECIFICATION {specification}')
    else:
        lines += [f'INIT {init}', f'NEXT {next_}']
    if constants:
        lines.append('CONSTANTS')
        for k, v in constants.items():
            if isinstance(v, tuple) and v[0] == '<-':
                lines.append(f'  {k} <- {v[1]}')
            else:
                lines.append(f'  {k} = {v}')
    for inv in invariants:
        lines.append(f'INVARIANT {inv}')
    for p in properties:
        lines.append(f'PROPERTY {p}')
    for c in constraints:
        lines.append(f'CONSTRAINT {c}')
    for c in action_constraints:
        lines.append(f'ACTION_CONSTRAINT {c}')
    if view:
        lines.append(f'VIEW {view}')
    if postcondition:
        lines.append(f'POSTCONDITION {postcondition}')
    lines.append(f'CHECK_DEADLOCK {"TRUE" if deadlock else "FALSE"}')
    with open(path, 'w') as f:
        f.write('\n'.join(lines) + '\n')
    return path


def tla_set(items):
    return '{' + ', '.join('"%s"' % i if isinstance(i, str) else str(i) for i in items) + '}'


def run_tlapm(modules, main, timeout=1500):
    """copy the modules to a scratch directory, run tlapm on `main`; -> (obligations proved or None, output tail).
    Runs of tlapm are serialised across processes (its back ends use fixed scratch names) and retried once."""
    import fcntl

    base = os.environ.get('VERIF_TMP', '/tmp')
    out = ''
    with open(os.path.join(base, 'verif_tlapm.lock'), 'w') as lock:
        fcntl.flock(lock, fcntl.LOCK_EX)
        for attempt in range(2):
            tmp = tempfile.mkdtemp(prefix='tlaps_', dir=base)
            try:
                for f in modules:
                    shutil.copy(os.path.join(SPEC, f), tmp)
                try:
                    p = subprocess.run(['tlapm', '-I', '/opt/veriftools/tla', main], cwd=tmp, capture_output=True, text=True, timeout=timeout)
                    out = p.stdout + p.stderr
                except subprocess.TimeoutExpired:
                    out = 'TIMEOUT'
            finally:
                shutil.rmtree(tmp, ignore_errors=True)
            m = re.search(r'All (\d+) obligations? proved', out)
            if m:
                return int(m.group(1)), out[-3000:]
    return None, out[-3000:]
