"""Step records: run the real transition / reward / termination code on families
of states and have TLC validate every record against the specification."""
from __future__ import annotations

import itertools

import numpy as np
import json
import math
import os
import random
import time
from typing import Dict, Iterable, List, Optional

from harness import boot  # noqa: F401
from harness import build, proj, rngtools
from harness.tlc import run_many

from gym_gridverse.action import Action
from gym_gridverse.envs import gridworld as gridworld_mod
from gym_gridverse.envs.gridworld import GridWorld
from gym_gridverse.envs.transition_functions import transition_with_copy
from gym_gridverse.debugging import reset_gv_debug

# ------------------------------------------------------------------ alphabet
def O(t, s=0, c='NONE', inner=None):
    return {'t': t, 's': s, 'c': c, 'in': [] if inner is None else [inner]}


FLOOR = O('Floor')
WALL = O('Wall')
ALPHA = [
    FLOOR, WALL, O('Exit'), O('Door', 0, 'RED'), O('Door', 1, 'RED'), O('Door', 2, 'RED'),
    O('Door', 2, 'BLUE'), O('Key', 0, 'RED'), O('Key', 0, 'BLUE'), O('MovingObstacle'),
    O('Box', 0, 'NONE', O('Key', 0, 'RED')), O('Box', 0, 'NONE', FLOOR),
    O('Telepod', 0, 'RED'), O('Telepod', 0, 'BLUE'), O('Beacon', 0, 'RED'),
]
HELD = [O('NoneGridObject'), O('Key', 0, 'RED'), O('Key', 0, 'BLUE'), WALL]
ORIS = ['F', 'R', 'B', 'L']
FAMILY_TYPES = ['Floor', 'Wall', 'Exit', 'Door', 'Key', 'MovingObstacle', 'Box', 'Telepod', 'Beacon']
ALL_COLORS = ['NONE', 'RED', 'GREEN', 'BLUE', 'YELLOW']
ACTIONS = [a.name for a in Action]


def family_space(h, w):
    return {'shape': [h, w], 'types': FAMILY_TYPES, 'colors': ALL_COLORS}


def cell_family_size(h, w):
    return len(ALPHA) ** (h * w) * h * w * 4 * len(HELD)


def cell_family_member(h, w, idx):
    """decode index -> state (mirror of GVFamilies!CellFamilyIndex)"""
    idx, held = divmod(idx, len(HELD))
    idx, ori = divmod(idx, 4)
    idx, posi = divmod(idx, h * w)
    digits = []
    for _ in range(h * w):
        idx, d = divmod(idx, len(ALPHA))
        digits.append(d)
    digits.reverse()  # first cell most significant
    grid = [[ALPHA[digits[y * w + x]] for x in range(w)] for y in range(h)]
    return {'grid': grid, 'pos': [posi // w, posi % w], 'ori': ORIS[ori], 'item': HELD[held]}


def local_family(h, w, k, alphabet=None, helds=None):
    """h x w grids with at most k non-floor cells, every pose, every held item"""
    alphabet = ALPHA[1:] if alphabet is None else alphabet
    helds = HELD if helds is None else helds
    cells = [(y, x) for y in range(h) for x in range(w)]
    for n in range(k + 1):
        for where in itertools.combinations(cells, n):
            for what in itertools.product(alphabet, repeat=n):
                grid = [[FLOOR for _ in range(w)] for _ in range(h)]
                for (y, x), o in zip(where, what):
                    grid[y][x] = o
                for (y, x) in cells:
                    for ori in ORIS:
                        for held in helds:
                            yield {'grid': grid, 'pos': [y, x], 'ori': ori, 'item': held}


# --------------------------------------------------------------- compositions
def C(name, **kw):
    d = {'name': name}
    d.update(kw)
    return d


T_ALL = [C(n) for n in ['move_agent', 'turn_agent', 'actuate_door', 'actuate_box', 'pickndrop', 'move_obstacles', 'teleport']]
COMPOSITIONS = {
    'basic': [C('move_agent'), C('turn_agent')],
    'keydoor': [C('move_agent'), C('turn_agent'), C('actuate_door'), C('pickndrop')],
    'obstacles': [C('move_agent'), C('turn_agent'), C('move_obstacles')],
    'teleport': [C('move_agent'), C('turn_agent'), C('teleport')],
    'all': T_ALL,
    'all2': [C(n) for n in ['turn_agent', 'pickndrop', 'actuate_box', 'actuate_door', 'move_agent', 'move_obstacles', 'teleport']],
    'nested': [C('chain', transition_functions=[C('move_agent'), C('turn_agent')]),
               C('chain', transition_functions=[C('actuate_door'), C('chain', transition_functions=[C('actuate_box'), C('pickndrop')])]),
               C('move_obstacles'), C('teleport')],
    'unshaped': [C('teleport'), C('move_obstacles'), C('pickndrop'), C('move_agent'), C('move_agent'), C('turn_agent')],
    'only_obstacles': [C('move_obstacles')],
    'only_teleport': [C('teleport')],
    'only_pickndrop': [C('pickndrop')],
    'only_door': [C('actuate_door')],
    'only_box': [C('actuate_box')],
    'only_move': [C('move_agent')],
    'only_turn': [C('turn_agent')],
}

R_SHIPPED = C('reduce_sum', reward_functions=[
    C('reach_exit', reward_on=5000, reward_off=0),
    C('bump_moving_obstacle', reward=-1000),
    C('bump_into_wall', reward=-1000),
    C('pickndrop', object_type='Key', reward_pick=1000, reward_drop=-1000),
    C('actuate_door', reward_open=1000, reward_close=-1000),
    C('living_reward', reward=-50),
])
TERM_SHIPPED = C('reduce_any', terminating_functions=[C('reach_exit'), C('bump_moving_obstacle'), C('bump_into_wall')])


# ------------------------------------------------------------ running a record
class _Runner:
    """caches built components per composition (built through the library's factories)"""

    def __init__(self):
        self.cache: Dict[str, object] = {}

    def get(self, kind, comp):
        key = kind + json.dumps(comp, sort_keys=True)
        if key not in self.cache:
            if kind == 'T':
                self.cache[key] = build.transition_list(comp)
            elif kind == 'R':
                self.cache[key] = build.reward(comp)
            elif kind == 'X':
                self.cache[key] = build.termination(comp)
        return self.cache[key]


_runner = _Runner()


def _dummy_reset(*, rng=None):
    raise RuntimeError('no reset')


def _dummy_obs(state, *, rng=None):
    raise RuntimeError('no observation')


def make_record(rec_id, st_json, comps, space, rew=None, term=None, actions=None, via='gridworld',
                fam='', fi=-1, fsize=-1, k=-1, enum_limit=2000, seeds=None, want=None, live_state=None, chain=None):
    """run the code on one state under every action; returns the record.
    live_state: the State object to question (a product of earlier calls, carrying whatever the code attached to it)
    instead of a fresh one built from st_json"""
    actions = ACTIONS if actions is None else actions
    tf = _runner.get('T', comps)
    rf = _runner.get('R', rew) if rew is not None else None
    xf = _runner.get('X', term) if term is not None else None
    state = live_state if live_state is not None else proj.state_from_json(st_json)
    env = None
    if via == 'gridworld':
        env = GridWorld(
            build.state_space(space), build.action_space(ACTIONS), None,
            _dummy_reset, tf, _dummy_obs,
            rf if rf is not None else (lambda s, a, n, rng=None: 0.0),
            xf if xf is not None else (lambda s, a, n, rng=None: False),
        )
    acts = []
    canon_st = _canon(st_json)
    for aname in actions:
        action = Action[aname]
        support, rs, rtypes, rfin, rex, dones, dtypes = [], [], [], [], [], [], []
        seen = set()
        outcome, full = 'ok', True

        def one(rng):
            if env is not None:
                rngtools.install_rng(env, rng)
                return env.functional_step(state, action)
            nxt = transition_with_copy(tf, state, action, rng=rng)
            r = rf(state, action, nxt) if rf is not None else 0.0
            d = xf(state, action, nxt) if xf is not None else False
            return nxt, r, d

        def collect(gen):
            for (nxt, r, d), _script in gen:
                j = proj.state_to_json(nxt)
                key = json.dumps(j, sort_keys=True)
                if key in seen:
                    continue
                seen.add(key)
                support.append(j)
                rtypes.append('float' if isinstance(r, float) else type(r).__name__)
                try:
                    fr = float(r)
                    rfin.append(math.isfinite(fr))
                    rs.append(proj.milli(fr) if math.isfinite(fr) else 0)
                    rex.append(proj.is_milli_exact(fr) if math.isfinite(fr) else False)
                except Exception:
                    rfin.append(False)
                    rs.append(0)
                    rex.append(False)
                dones.append(bool(d))
                dtypes.append('bool' if isinstance(d, (bool, np.bool_)) else type(d).__name__)

        try:
            if seeds is None:
                try:
                    collect(rngtools.enumerate_outcomes(one, limit=enum_limit))
                except rngtools.NotEnumerable:
                    # the code draws in a way the enumerating generator cannot branch on (or too many outcomes):
                    # sample with real generators instead; the support found is a subset (full = False)
                    full = False
                    collect(((one(np.random.default_rng(1000 + s_)), None) for s_ in range(24)))
            else:
                full = False
                collect(((one(np.random.default_rng(s_)), None) for s_ in seeds))
        except Exception as e:  # the code raised
            outcome = proj.outcome_class(e)
            support = []
        if outcome != 'ok':
            rs, rtypes, rfin, rex, dones, dtypes = [], [], [], [], [], []
        same = outcome == 'ok' and len(support) == 1 and support[0] == canon_st
        acts.append({'a': aname, 'outcome': outcome, 'full': full, 'same': same, 'support': [] if same else support, 'r': rs,
                     'rtype': rtypes, 'rfinite': rfin, 'rexact': rex, 'done': dones, 'dtype': dtypes})
    mutated = proj.state_to_json(state) != _canon(st_json)
    return {'id': rec_id, 'want': list(want) if want is not None else ['C01', 'C08', 'C09', 'C10', 'C11', 'C12', 'DRIFT'], 'fam': fam, 'fi': fi, 'fsize': fsize, 'k': k, 'space': space,
            'comps': comps, 'rew': [] if rew is None else [rew], 'term': [] if term is None else [term],
            'st': st_json, 'acts': acts, 'mutated': mutated, **({'chain': chain} if chain is not None else {})}




def chain_records(kw):
    """a walk on LIVE state objects: every state of the walk is questioned (all actions, every outcome) as the object the
    previous call returned - memos, caches and attributes the code attached to it ride along - and the walk continues
    with the outcome drawn by the walk's seed.  kw['walk'] = {'actions': [...], 'seeds': [...]}; record ids are
    rec_id * 16 + t."""
    import numpy as np

    kw = dict(kw)
    walk = kw.pop('walk')
    base = kw.pop('rec_id')
    start = kw.pop('st_json')
    tf = _runner.get('T', kw['comps'])
    live = proj.state_from_json(start)
    out = []
    for t, (aname, sd) in enumerate(zip(walk['actions'], walk['seeds'])):
        st_json = proj.state_to_json(live)
        out.append(make_record(rec_id=base * 16 + t, st_json=st_json, live_state=live,
                               chain={'start': start, 'actions': walk['actions'][:t], 'seeds': walk['seeds'][:t]}, **kw))
        try:
            live = transition_with_copy(tf, live, Action[aname], rng=np.random.default_rng(sd))
        except Exception:
            break
        # a defective step may leave the state space (agent outside the grid): the record above reports it, and the
        # rules have nothing to say about what follows from an invalid state
        if not live.grid.area.contains(live.agent.position) or live.grid.shape != proj.state_from_json(start).grid.shape:
            break
    return out


def _canon(j):
    return json.loads(json.dumps(j))


# -------------------------------------------------------------- sharded runs
def _worker(args):
    shard_path, jobs, common = args
    reset_gv_debug(True)
    n_acts = 0
    nontrivial = set()
    raises = 0
    n_recs = 0
    with open(shard_path, 'w') as f:
        for job in jobs:
            kw = dict(common)
            kw.update(job)
            recs = chain_records(kw) if 'walk' in kw else [make_record(**kw)]
            for rec in recs:
              f.write(json.dumps(rec, separators=(',', ':')) + '\n')
              for act in rec['acts']:
                n_acts += 1
                if act['outcome'] != 'ok':
                    raises += 1
                for s in act['support']:
                    if True:
                        nontrivial.add(hash(json.dumps([rec['st'], act['a'], s], sort_keys=True)))
            n_recs += len(recs)
    return n_recs, n_acts, len(nontrivial), raises


def run_jobs(workdir, jobs: List[dict], common: dict, nshards=16, tag='steps'):
    """execute jobs in parallel, one ndjson shard per worker; returns shard paths + counts"""
    import multiprocessing as mp

    os.makedirs(workdir, exist_ok=True)
    nshards = max(1, min(nshards, len(jobs)))
    per = (len(jobs) + nshards - 1) // nshards
    parts = [jobs[i * per:(i + 1) * per] for i in range(nshards)]
    parts = [p for p in parts if p]
    paths = [os.path.join(workdir, f'{tag}_{i:02d}.ndjson') for i in range(len(parts))]
    with mp.Pool(min(16, len(parts))) as pool:
        counts = pool.map(_worker, [(p, part, common) for p, part in zip(paths, parts)])
    return paths, {
        'records': sum(c[0] for c in counts),
        'acts': sum(c[1] for c in counts),
        'nontrivial': sum(c[2] for c in counts),
        'raises': sum(c[3] for c in counts),
    }


def validate(paths: List[str], module='Trace_Step', parallel=16, timeout=3600):
    """TLC-validate shards; returns (bad list, totals)"""
    jobs = [dict(module=module, env={'TRACE_FILE': p}, workers=1, timeout=timeout) for p in paths]
    results = run_many(jobs, parallel=parallel)
    bad, generated, distinct, done = [], 0, 0, 0
    for p, res in zip(paths, results):
        generated += res.generated
        distinct += res.distinct
        d = res.find('DONE')
        if not d:
            raise RuntimeError(f'TLC did not finish {p}:\n{res.raw[-2000:]}')
        done += d[0][1]
        for t in res.find('BAD'):
            bad.append({'shard': p, 'id': t[1], 'a': t[2], 'clauses': sorted(t[3]['set'])})
        for t in res.find('UNPARSED'):
            raise RuntimeError(f'unparsable TLC output: {t}')
    return bad, {'generated': generated, 'distinct': distinct, 'done': done}


def load_record(shard, rec_id):
    with open(shard) as f:
        for line in f:
            if f'"id":{rec_id},' in line[:40]:
                r = json.loads(line)
                if r['id'] == rec_id:
                    return r
    return None
