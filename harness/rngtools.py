"""Duck-typed replacements for numpy.random.Generator.

RecordingRNG   wraps a real generator and logs every call (name, args) and result
ScriptedRNG    answers from a script of decisions (index into the option list)
enumerate_outcomes(f)  depth-first search over all answers of an EnumeratingRNG:
                       yields f's result for every resolution of every random
                       choice, i.e. the exact support of a stochastic function.

Supported calls: choice(n | seq [, size, replace=False]), integers(lo, hi [, size, endpoint]), shuffle(list),
permutation(n | seq); random(shape) and every other Generator method raise NotEnumerable (the caller then samples
with real generators instead of enumerating).
Argument errors mimic numpy (ValueError), because move_obstacles relies on
`choice(0)` raising.
"""
from __future__ import annotations

import itertools
import math
from typing import Any, Callable, List, Optional

import numpy as np


class NotEnumerable(Exception):
    pass


class _Base:
    def __init__(self):
        self.calls: List[tuple] = []

    # -- decision primitive -------------------------------------------------
    def _decide(self, n_options: int, what: str) -> int:
        raise NotImplementedError

    # -- numpy-like API -----------------------------------------------------
    def choice(self, a, size=None, replace=True, p=None, axis=0, shuffle=True):
        if p is not None:
            raise NotEnumerable('choice with p')
        if isinstance(a, (int, np.integer)):
            n, pop = int(a), None
        else:
            pop = list(a)
            n = len(pop)
        if size is None:
            if n <= 0:
                raise ValueError('a must be a positive integer unless no samples are taken')
            k = self._decide(n, f'choice({n})')
            self.calls.append(('choice', n, None, k))
            return k if pop is None else pop[k]
        size = int(size)
        if size < 0:
            raise ValueError('negative dimensions are not allowed')
        if replace:
            if n <= 0 and size > 0:
                raise ValueError('a must be a positive integer unless no samples are taken')
            idx = [self._decide(n, f'choice({n})') for _ in range(size)]
        else:
            if size > n:
                raise ValueError('Cannot take a larger sample than population when replace is False')
            idx = []
            remaining = list(range(n))
            for _ in range(size):
                j = self._decide(len(remaining), f'choice_norepl({len(remaining)})')
                idx.append(remaining.pop(j))
        self.calls.append(('choices', n, size, tuple(idx)))
        if pop is None:
            return np.array(idx, dtype=int)
        out = np.empty(len(idx), dtype=object)
        for t, j in enumerate(idx):
            out[t] = pop[j]
        return out

    def integers(self, low, high=None, size=None, dtype=np.int64, endpoint=False):
        if size is not None:
            if not isinstance(size, (int, np.integer)) or isinstance(low, (list, tuple, np.ndarray)) or isinstance(high, (list, tuple, np.ndarray)):
                raise NotEnumerable('integers with array arguments')
            return np.array([self.integers(low, high, None, dtype, endpoint) for _ in range(int(size))], dtype=dtype)
        if high is None:
            low, high = 0, low
        low, high = int(low), int(high)
        if endpoint:
            high += 1
        if low >= high:
            raise ValueError('low >= high')
        k = self._decide(high - low, f'integers({low},{high})')
        self.calls.append(('integers', low, high, low + k))
        return np.int64(low + k)

    def shuffle(self, x, axis=0):
        n = len(x)
        items = list(x)
        remaining = list(range(n))
        order = []
        for _ in range(n):
            j = self._decide(len(remaining), f'shuffle({len(remaining)})')
            order.append(remaining.pop(j))
        self.calls.append(('shuffle', n, None, tuple(order)))
        for t, j in enumerate(order):
            x[t] = items[j]

    def permutation(self, x, axis=0):
        items = list(range(int(x))) if isinstance(x, (int, np.integer)) else list(x)
        self.shuffle(items)
        if isinstance(x, (int, np.integer)):
            return np.array(items, dtype=np.int64)
        out = np.empty(len(items), dtype=object) if not isinstance(x, np.ndarray) else np.array(items, dtype=x.dtype)
        if not isinstance(x, np.ndarray):
            for t, v in enumerate(items):
                out[t] = v
        return out

    def random(self, size=None, dtype=np.float64, out=None):
        raise NotEnumerable('random()')

    def __getattr__(self, name):
        # any other method of numpy's Generator (uniform, normal, permuted, bytes, ...): a correct refactoring may use it;
        # the exact support cannot be enumerated then and the caller falls back to sampling with real generators
        if name.startswith('__'):
            raise AttributeError(name)

        def not_enumerable(*args, **kwargs):
            raise NotEnumerable(name)
        return not_enumerable


class ScriptedRNG(_Base):
    """answers decision k with script[k] (0 when the script is exhausted)"""

    def __init__(self, script=()):
        super().__init__()
        self.script = list(script)
        self.cursor = 0
        self.branching: List[int] = []

    def _decide(self, n_options, what):
        k = self.script[self.cursor] if self.cursor < len(self.script) else 0
        if not 0 <= k < n_options:
            raise IndexError(f'script answer {k} out of range for {what}')
        self.cursor += 1
        self.branching.append(n_options)
        return k


def enumerate_outcomes(f: Callable[[Any], Any], limit: int = 100000):
    """run f(rng) for every resolution of its random choices.

    Yields (result, script).  f must be deterministic given the answers.
    Exceptions raised by f propagate to the caller (with the script attached).
    """
    script: List[int] = []
    count = 0
    while True:
        rng = ScriptedRNG(script)
        try:
            result = f(rng)
        except Exception as e:  # noqa
            e.rng_script = list(script)  # type: ignore
            raise
        taken = (script + [0] * len(rng.branching))[: len(rng.branching)]
        yield result, list(taken)
        count += 1
        if count >= limit:
            raise NotEnumerable(f'more than {limit} outcomes')
        # backtrack
        k = len(taken) - 1
        while k >= 0 and taken[k] + 1 >= rng.branching[k]:
            k -= 1
        if k < 0:
            return
        script = taken[:k] + [taken[k] + 1]


class RecordingRNG:
    """wraps a real numpy Generator, logging calls; everything else is forwarded"""

    def __init__(self, seed_or_gen=None):
        self.gen = (
            seed_or_gen
            if isinstance(seed_or_gen, np.random.Generator)
            else np.random.default_rng(seed_or_gen)
        )
        self.calls: List[tuple] = []

    def _wrap(self, name):
        fn = getattr(self.gen, name)

        def call(*args, **kwargs):
            out = fn(*args, **kwargs)
            self.calls.append((name,))
            return out

        return call

    def __getattr__(self, name):
        if name in ('choice', 'integers', 'shuffle', 'random', 'permutation', 'uniform', 'normal'):
            return self._wrap(name)
        return getattr(self.gen, name)

    @property
    def n_calls(self):
        return len(self.calls)


def install_rng(env, rng, seed=0):
    """make `rng` the generator of a GridWorld: through the module-level `make_rng` that `set_seed` uses when the
    code still has it (so that set_seed itself runs), otherwise by replacing the generator set_seed installed"""
    from gym_gridverse.envs import gridworld as gridworld_mod

    orig = getattr(gridworld_mod, 'make_rng', None)
    if orig is not None:
        gridworld_mod.make_rng = lambda s=None: rng
        try:
            env.set_seed(seed)
        finally:
            gridworld_mod.make_rng = orig
    else:
        env.set_seed(seed)
    if getattr(env, '_rng', None) is not rng:
        env._rng = rng
