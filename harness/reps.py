"""Representation records (C15, C16) for Trace_Rep."""
from __future__ import annotations

import itertools
import json
import os
import random

from harness import boot  # noqa: F401
from harness import build, proj, steps
from harness.tlc import run_many

import numpy as np
from gym_gridverse.debugging import reset_gv_debug
from gym_gridverse.gym import outer_space_to_gym_space
from gym_gridverse.representations.observation_representations import make_observation_representation
from gym_gridverse.representations.state_representations import make_state_representation

REP_NAMES = ['default', 'no-overlap', 'compact']
STATE_TYPES = ['Floor', 'Wall', 'Exit', 'Door', 'Key', 'MovingObstacle', 'Telepod', 'Beacon']
OBS_TYPES = STATE_TYPES + ['Box']
REAL_COLORS = ['RED', 'GREEN', 'BLUE', 'YELLOW']
COLORED = {'Exit', 'Door', 'Key', 'Telepod', 'Beacon'}
O = steps.O


def make_rep(kind, name, space_json):
    if kind == 'state':
        return make_state_representation(name, build.state_space(space_json))
    return make_observation_representation(name, build.observation_space(space_json))


def objects_of(types, colors):
    out = []
    for t in types:
        if t in ('NoneGridObject', 'Hidden'):
            continue   # listed explicitly in a space: they are added by the callers where they may occur
        for s in range(3 if t == 'Door' else 1):
            for c in (['NONE'] + list(colors) if t in COLORED else ['NONE']):
                if t == 'Box':
                    out.append(O('Box', 0, 'NONE', O('Key', 0, 'RED')))
                else:
                    out.append(O(t, s, c))
    return out


def tolist(a):
    return np.asarray(a).tolist()


def space_record(rec_id, kind, name, space_json):
    rep = make_rep(kind, name, space_json)
    sp = rep.space
    gym_space = outer_space_to_gym_space(sp)
    return {'id': rec_id, 'kind': 'space', 'kind_': kind, 'name': name, 'space': space_json, 'keys': list(sp.keys()),
            'spaces': {k: {'type': v.space_type.name, 'lo': [int(x) for x in v.lower_bound] if v.lower_bound.ndim == 1 else tolist(v.lower_bound.astype(int)),
                           'hi': [int(x) for x in v.upper_bound] if v.upper_bound.ndim == 1 else tolist(v.upper_bound.astype(int))}
                       for k, v in sp.items()},
            'gym': {k: {'lo': tolist(gym_space[k].low.astype(int)), 'hi': tolist(gym_space[k].high.astype(int)), 'dtype': str(gym_space[k].dtype)}
                    for k in sp.keys()}}


def encoding_table(kind, name, space_json, rep):
    """the code's encoding of every object of the space, read through the public convert(): a member whose
    cells all hold the object (and which holds it, when it can be held)"""
    h, w = space_json['shape']
    mk = proj.state_from_json if kind == 'state' else proj.obs_from_json
    objs = objects_of(space_json['types'], space_json['colors']) + ([proj.HIDDEN] if kind == 'observation' else [])
    table = []
    for o in objs:
        holdable = o['t'] != 'Hidden'
        st = {'grid': [[o for _ in range(w)] for _ in range(h)], 'pos': [h - 1, w // 2], 'ori': 'F', 'item': o if holdable else proj.NONE_OBJ}
        conv = rep.convert(mk(st))
        table.append([o, [int(x) for x in conv['grid'][0][0]]])
    st = {'grid': [[objs[0] for _ in range(w)] for _ in range(h)], 'pos': [h - 1, w // 2], 'ori': 'F', 'item': proj.NONE_OBJ}
    table.append([proj.NONE_OBJ, [int(x) for x in rep.convert(mk(st))['item']]])
    return table


def conv_record(rec_id, kind, name, space_json, st_json, rep=None, gym_space=None, table=None, declared=None):
    rep = rep or make_rep(kind, name, space_json)
    # `declared`: the spaces the representation advertised when it was built (what a user would have kept)
    sp = declared if declared is not None else rep.space
    gym_space = gym_space or outer_space_to_gym_space(sp)
    obj = proj.state_from_json(st_json) if kind == 'state' else proj.obs_from_json(st_json)
    rec = {'id': rec_id, 'kind': 'conv', 'kind_': kind, 'name': name, 'space': space_json, 'st': st_json, 'outcome': 'ok',
           'conv': {}, 'dtypes': {}, 'contains': {}, 'gymcontains': {}, 'agent_exact': True, 'table': table if table is not None else [],
           'spaces': {k: {'lo': tolist(v.lower_bound.astype(int)), 'hi': tolist(v.upper_bound.astype(int))} for k, v in sp.items() if k != 'agent'}}
    try:
        conv = rep.convert(obj)
    except Exception as e:
        rec['outcome'] = proj.outcome_class(e)
        return rec
    h, w = space_json['shape']
    for k, v in conv.items():
        rec['dtypes'][k] = str(v.dtype)
        rec['contains'][k] = bool(sp[k].contains(v))
        # gym's own membership test on the array as returned (dtype included)
        rec['gymcontains'][k] = bool(gym_space[k].contains(v)) and bool(
            np.all(gym_space[k].low <= v) and np.all(v <= gym_space[k].high) and v.shape == gym_space[k].shape)
        if k == 'agent':
            ynum, xnum = float(v[0]) * (h - 1), float(v[1]) * (w - 1)
            rec['agent_exact'] = abs(ynum - round(ynum)) < 1e-9 and abs(xnum - round(xnum)) < 1e-9 and all(float(x) in (0.0, 1.0) for x in v[2:])
            rec['conv'][k] = [int(round(ynum)), int(round(xnum))] + [int(x) for x in v[2:]]
        else:
            rec['conv'][k] = tolist(v)
    return rec


def pair_record(rec_id, kind, name, space_json, st1, st2, rep=None):
    rep = rep or make_rep(kind, name, space_json)
    mk = proj.state_from_json if kind == 'state' else proj.obs_from_json
    a, b = mk(st1), mk(st2)
    ca, cb = rep.convert(a), rep.convert(b)
    return {'id': rec_id, 'kind': 'pair', 'kind_': kind, 'name': name, 'space': space_json, 'st1': st1, 'st2': st2,
            'conv1': {k: tolist(v) if k != 'agent' else [round(float(x) * 1e6) for x in v] for k, v in ca.items()},
            'conv2': {k: tolist(v) if k != 'agent' else [round(float(x) * 1e6) for x in v] for k, v in cb.items()},
            'pyeq': bool(a == b), 'hasheq': hash(a.grid) == hash(b.grid) and hash(a.agent) == hash(b.agent)}


def pairhist_record(rec_id, kind, name, space_json, st1, st2=None, rep=None):
    """st1 = a state with a closed door in front of the agent; its hash is taken, the door is opened by the real
    actuate_door on a copy (transition_with_copy), and the result is compared with a freshly built equal state"""
    from gym_gridverse.action import Action
    from gym_gridverse.envs.transition_functions import factory as tf_factory, transition_with_copy
    rep = rep or make_rep(kind, name, space_json)
    s0 = proj.state_from_json(st1)
    hash(s0.grid), hash(s0.agent)
    s1 = transition_with_copy(tf_factory('actuate_door'), s0, Action.ACTUATE)
    hash(s1.grid), hash(s1.agent)
    s1j = proj.state_to_json(s1)
    fresh = proj.state_from_json(s1j)
    ca, cb = rep.convert(s1), rep.convert(fresh)
    return {'id': rec_id, 'kind': 'pair', 'kind_': kind, 'name': name, 'space': space_json, 'st1': s1j, 'st2': proj.state_to_json(fresh),
            'conv1': {k: tolist(v) if k != 'agent' else [round(float(x) * 1e6) for x in v] for k, v in ca.items()},
            'conv2': {k: tolist(v) if k != 'agent' else [round(float(x) * 1e6) for x in v] for k, v in cb.items()},
            'pyeq': bool(s1 == fresh), 'hasheq': hash(s1.grid) == hash(fresh.grid) and hash(s1.agent) == hash(fresh.agent)}


def random_member(rng, kind, space_json, cell_objs=None, item_objs=None):
    h, w = space_json['shape']
    cells = cell_objs or objects_of(space_json['types'], space_json['colors']) + ([proj.HIDDEN] if kind == 'observation' else [])
    items = item_objs or objects_of(space_json['types'], space_json['colors']) + [proj.NONE_OBJ]
    grid = [[rng.choice(cells) for _ in range(w)] for _ in range(h)]
    if kind == 'state':
        pos = [rng.randrange(h), rng.randrange(w)]
        ori = rng.choice(steps.ORIS)
    else:
        pos = [h - 1, w // 2] if rng.random() < 0.7 else [rng.randrange(h), rng.randrange(w)]
        ori = 'F'
    return {'grid': grid, 'pos': pos, 'ori': ori, 'item': rng.choice(items)}


def covering_members(kind, space_json):
    """members that place every object of the space on the grid and in the hand, with every pose"""
    h, w = space_json['shape']
    cells = objects_of(space_json['types'], space_json['colors']) + ([proj.HIDDEN] if kind == 'observation' else [])
    items = objects_of(space_json['types'], space_json['colors']) + [proj.NONE_OBJ]
    out = []
    n = h * w
    k = 0
    poses = [(y, x, o) for y in range(h) for x in range(w) for o in (steps.ORIS if kind == 'state' else ['F'])]
    rounds = max((len(cells) + n - 1) // n, (len(items) + len(poses) - 1) // len(poses), 1)
    for pi, (y, x, o) in enumerate(poses):
        grid = [[cells[(k + yy * w + xx) % len(cells)] for xx in range(w)] for yy in range(h)]
        k += n
        out.append({'grid': grid, 'pos': [y, x], 'ori': o, 'item': items[pi % len(items)]})
    for ii in range(len(poses), len(items)):
        y, x, o = poses[ii % len(poses)]
        out.append({'grid': [[cells[(k + yy * w + xx) % len(cells)] for xx in range(w)] for yy in range(h)],
                    'pos': [y, x], 'ori': o, 'item': items[ii]})
        k += n
    return out


def mutate_one_field(rng, kind, space_json, st):
    s = json.loads(json.dumps(st))
    h, w = space_json['shape']
    cells = objects_of(space_json['types'], space_json['colors']) + ([proj.HIDDEN] if kind == 'observation' else [])
    items = objects_of(space_json['types'], space_json['colors']) + [proj.NONE_OBJ]
    what = rng.choice(['cell', 'cell', 'cell', 'pos', 'ori', 'item', 'none', 'boxcontent'])
    if what == 'cell':
        y, x = rng.randrange(h), rng.randrange(w)
        s['grid'][y][x] = rng.choice(cells)
    elif what == 'pos':
        s['pos'] = [rng.randrange(h), rng.randrange(w)]
    elif what == 'ori' and kind == 'state':
        s['ori'] = rng.choice(steps.ORIS)
    elif what == 'item':
        s['item'] = rng.choice(items)
    elif what == 'boxcontent':
        for row in s['grid']:
            for o in row:
                if o['t'] == 'Box':
                    o['in'] = [O('Floor')]
    return s


def _worker(args):
    path, jobs = args
    reset_gv_debug(True)
    cache = {}
    late = {}
    n = 0
    distinct = set()
    with open(path, 'w') as f:
        for job in jobs:
            kind = job.pop('rkind')
            key = (job['kind'], job['name'], json.dumps(job['space_json'], sort_keys=True))
            if kind != 'space':
                if key not in cache:
                    rep = make_rep(job['kind'], job['name'], job['space_json'])
                    declared = rep.space
                    cache[key] = (rep, outer_space_to_gym_space(declared), encoding_table(job['kind'], job['name'], job['space_json'], rep), declared)
                rep, gs, tab, declared = cache[key]
            if kind == 'space':
                rec = space_record(**job)
            elif kind == 'conv':
                rec = conv_record(rep=rep, gym_space=gs, table=tab, declared=declared, **job)
                distinct.add(hash(json.dumps(rec['conv'], sort_keys=True)))
                if key not in late and len(late) < 150:
                    late[key] = dict(job)
            elif kind == 'pairhist':
                rec = pairhist_record(rep=rep, **job)
            else:
                rec = pair_record(rep=rep, **job)
            f.write(json.dumps(rec, separators=(',', ':')) + '\n')
            n += 1
        # late conversions: the first member of (up to 150) representations is converted again after all the other
        # representations of this worker were built, against the spaces advertised at construction time
        for k2, (key, job) in enumerate(late.items()):
            rep, gs, tab, declared = cache[key]
            job = dict(job, rec_id=2_000_000_000 - 1 - (hash(path) % 1000) * 1000 - k2)
            rec = conv_record(rep=rep, gym_space=gs, table=tab, declared=declared, **job)
            rec['late'] = True
            f.write(json.dumps(rec, separators=(',', ':')) + '\n')
            n += 1
    return n, len(distinct)


def run_jobs(workdir, jobs, nshards=16, tag='rep'):
    import multiprocessing as mp

    os.makedirs(workdir, exist_ok=True)
    nshards = max(1, min(nshards, len(jobs)))
    # keep the records of one (kind, name, space) together: each worker builds a representation and its table once
    order = sorted(range(len(jobs)), key=lambda i: (jobs[i]['kind'], json.dumps(jobs[i]['space_json'], sort_keys=True), jobs[i]['name']))
    per = (len(jobs) + nshards - 1) // nshards
    parts = [[jobs[i] for i in order[k * per:(k + 1) * per]] for k in range(nshards)]
    parts = [p for p in parts if p]
    paths = [os.path.join(workdir, f'{tag}_{i:02d}.ndjson') for i in range(len(parts))]
    with mp.Pool(min(16, len(parts))) as pool:
        counts = pool.map(_worker, list(zip(paths, parts)))
    return paths, {'records': sum(c[0] for c in counts), 'distinct': sum(c[1] for c in counts)}


def validate(paths, parallel=16):
    results = run_many([dict(module='Trace_Rep', env={'TRACE_FILE': p}, workers=1, timeout=3600) for p in paths], parallel=parallel)
    bad, generated, distinct, done = [], 0, 0, 0
    for p, res in zip(paths, results):
        generated += res.generated
        distinct += res.distinct
        d = res.find('DONE')
        if not d:
            raise RuntimeError(f'TLC did not finish {p}:\n{res.raw[-2000:]}')
        done += d[0][1]
        for t in res.find('BAD'):
            bad.append({'shard': p, 'id': t[1], 'clauses': sorted(t[2]['set'])})
        if res.find('UNPARSED'):
            raise RuntimeError(f'unparsable TLC output: {res.find("UNPARSED")[0]}')
    return bad, {'generated': generated, 'distinct': distinct, 'done': done}


def load_record(shard, rec_id):
    with open(shard) as f:
        for line in f:
            r = json.loads(line)
            if r['id'] == rec_id:
                return r
    return None


def all_spaces(kind):
    types = STATE_TYPES if kind == 'state' else OBS_TYPES
    for r in range(1, len(types) + 1):
        for ts in itertools.combinations(types, r):
            for cr in range(0, len(REAL_COLORS) + 1):
                for cs in itertools.combinations(REAL_COLORS, cr):
                    yield list(ts), list(cs)
