"""Projection between gym-gridverse objects and the specification's JSON values.

object      {"t": <class name>, "s": <state index>, "c": <colour name>, "in": [] | [object]}
state/obs   {"grid": [[object]], "pos": [y, x], "ori": "F|R|B|L", "item": object}
area        [[ymin, ymax], [xmin, xmax]]
"""
from __future__ import annotations

from harness import boot  # noqa: F401

from gym_gridverse.action import Action
from gym_gridverse.agent import Agent
from gym_gridverse.geometry import Area, Orientation, Position, Shape
from gym_gridverse.grid import Grid
from gym_gridverse import grid_object as go
from gym_gridverse.grid_object import Color
from gym_gridverse.observation import Observation
from gym_gridverse.state import State

ORI_NAME = {
    Orientation.F: 'F',
    Orientation.R: 'R',
    Orientation.B: 'B',
    Orientation.L: 'L',
}
ORI_OF = {v: k for k, v in ORI_NAME.items()}
ACTIONS = [a.name for a in Action]

NONE_OBJ = {'t': 'NoneGridObject', 's': 0, 'c': 'NONE', 'in': []}
FLOOR = {'t': 'Floor', 's': 0, 'c': 'NONE', 'in': []}
HIDDEN = {'t': 'Hidden', 's': 0, 'c': 'NONE', 'in': []}


def obj_to_json(o) -> dict:
    d = {
        't': type(o).__name__,
        's': int(o.state_index),
        'c': o.color.name,
        'in': [],
    }
    content = getattr(o, 'content', None)
    if isinstance(o, go.Box):
        d['in'] = [obj_to_json(content)]
    return d


def obj_from_json(d):
    t = d['t']
    c = Color[d['c']]
    if t == 'NoneGridObject':
        return go.NoneGridObject()
    if t == 'Hidden':
        return go.Hidden()
    if t == 'Floor':
        return go.Floor()
    if t == 'Wall':
        return go.Wall()
    if t == 'Exit':
        return go.Exit(c)
    if t == 'Door':
        return go.Door(go.Door.Status(d['s']), c)
    if t == 'Key':
        return go.Key(c)
    if t == 'MovingObstacle':
        return go.MovingObstacle()
    if t == 'Box':
        return go.Box(obj_from_json(d['in'][0]))
    if t == 'Telepod':
        return go.Telepod(c)
    if t == 'Beacon':
        return go.Beacon(c)
    cls = go.grid_object_registry.from_name(t)
    return cls()


def grid_to_json(grid) -> list:
    return [[obj_to_json(o) for o in row] for row in grid.objects]


def grid_from_json(rows) -> Grid:
    return Grid([[obj_from_json(d) for d in row] for row in rows])


def state_to_json(s) -> dict:
    return {
        'grid': grid_to_json(s.grid),
        'pos': [int(s.agent.position.y), int(s.agent.position.x)],
        'ori': ORI_NAME[s.agent.orientation],
        'item': obj_to_json(s.agent.grid_object),
    }


def state_from_json(d) -> State:
    return State(
        grid_from_json(d['grid']),
        Agent(
            Position(d['pos'][0], d['pos'][1]),
            ORI_OF[d['ori']],
            None if d['item']['t'] == 'NoneGridObject' else obj_from_json(d['item']),
        ),
    )


def obs_from_json(d) -> Observation:
    s = state_from_json(d)
    return Observation(s.grid, s.agent)


obs_to_json = state_to_json


def area_to_json(a: Area):
    return [[a.ymin, a.ymax], [a.xmin, a.xmax]]


def area_from_json(d) -> Area:
    return Area((d[0][0], d[0][1]), (d[1][0], d[1][1]))


def outcome_class(exc) -> str:
    """project an exception (or None) to the specification's outcome classes"""
    if exc is None:
        return 'ok'
    try:
        from schema import SchemaError

        if isinstance(exc, SchemaError):
            return 'SchemaError'
    except Exception:
        pass
    for cls in (ValueError, RuntimeError, NotImplementedError, IndexError, KeyError, TypeError, AssertionError):
        if type(exc) is cls or isinstance(exc, cls):
            return cls.__name__
    return 'other:' + type(exc).__name__


def milli(x) -> int:
    return int(round(float(x) * 1000))


def is_milli_exact(x) -> bool:
    return abs(float(x) * 1000 - round(float(x) * 1000)) < 1e-6
