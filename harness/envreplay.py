"""Replay behaviours of the GVEnv machine on real environments (C04, C20)."""
from __future__ import annotations

import copy
import json
import os
import random
from typing import List, Optional

from harness import boot  # noqa: F401
from harness import build, config, proj, rngtools
from harness.tlc import run_tlc, tla_set, write_cfg

import numpy as np
from gym_gridverse.action import Action
from gym_gridverse.envs import gridworld as gridworld_mod
from gym_gridverse.envs.gridworld import GridWorld
from gym_gridverse.gym import GymEnvironment, GymStateWrapper
from gym_gridverse.outer_env import OuterEnv
from gym_gridverse.representations.observation_representations import make_observation_representation
from gym_gridverse.representations.state_representations import make_state_representation
from gym_gridverse.spaces import ActionSpace

_BASE = {}


class Counting:
    """counts calls of a component and remembers the last arguments (by value)"""

    def __init__(self, fn, kind):
        self.fn, self.kind, self.n, self.last = fn, kind, 0, None

    def __call__(self, *args, **kwargs):
        self.n += 1
        if self.kind in ('rew', 'term'):
            self.last = (proj.state_to_json(args[0]), args[1].name, proj.state_to_json(args[2]))
        elif self.kind == 'trans':
            self.last = (args[1].name,)
        return self.fn(*args, **kwargs)


# a permuted, restricted action space: index i is NOT the enum value of the action
ACTIONS6 = [Action.TURN_LEFT, Action.MOVE_FORWARD, Action.TURN_RIGHT, Action.MOVE_LEFT, Action.MOVE_BACKWARD, Action.MOVE_RIGHT]
INVALID = [Action.ACTUATE, Action.PICK_N_DROP]


def make_parts(data, seed, reduced_actions=True):
    """a GridWorld assembled from library-built components wrapped in counters, seeded with a recording generator"""
    key = json.dumps(data, sort_keys=True)
    if key not in _BASE:
        _BASE[key] = (config.build_env(data), config.spec_config(data))
    base, cfg = _BASE[key]
    comps = {
        'reset': Counting(build.reset(cfg['reset']), 'reset'),
        'trans': Counting(build.transition_list(cfg['comps']), 'trans'),
        'obs': Counting(build.observation(cfg['obs']), 'obs'),
        'rew': Counting(build.reward(cfg['rew']), 'rew'),
        'term': Counting(build.termination(cfg['term']), 'term'),
    }
    aspace = ActionSpace(list(ACTIONS6)) if reduced_actions else base.action_space
    env = GridWorld(base.state_space, aspace, base.observation_space, comps['reset'], comps['trans'], comps['obs'], comps['rew'], comps['term'])
    rec = rngtools.RecordingRNG(seed)
    rngtools.install_rng(env, rec, seed)
    return env, comps, rec


class EnvUnderTest:
    def __init__(self, data, seed, action_seed, layer='inner', state_rep='default', obs_rep='default'):
        self.env, self.comps, self.rng = make_parts(data, seed)
        self.mirror, self.mcomps, self.mrng = make_parts(data, seed)
        self.arng = random.Random(action_seed)
        self.outer = OuterEnv(self.env, state_representation=make_state_representation(state_rep, self.env.state_space),
                              observation_representation=make_observation_representation(obs_rep, self.env.observation_space))
        self.gym = GymEnvironment(self.outer) if layer == 'gym' else None
        self.wrap = GymStateWrapper(self.gym) if layer == 'gym' else None
        self.m_state = None       # the mirror's functional thread
        self.m_obs = None
        self.rep_names = ['default', 'no-overlap', 'compact']
        self.problems: List[str] = []

    def counters(self):
        c = self.comps
        return {'reset': c['reset'].n, 'trans': c['trans'].n, 'rew': c['rew'].n, 'term': c['term'].n, 'obs': c['obs'].n}

    def _same(self, a, b):
        return all(np.array_equal(a[k], b[k]) for k in a) and set(a) == set(b)

    def _check_state(self, what):
        if self.m_state is not None:
            if not (self.env.state == self.m_state):
                self.problems.append(f'{what}: stateful state differs from the functional thread')

    def _mirror_obs(self):
        self.m_obs = self.mirror.functional_observation(self.m_state)
        return self.m_obs

    def do(self, op, expect):
        """execute one operation; compare with the model's expectation; returns list of problems"""
        self.problems = []
        before_calls = self.rng.n_calls
        outcome = 'ok'
        miss = expect['miss']
        has_state = expect['had_state']
        try:
            if op == 'Reset':
                self.env.reset()
                self.m_state = self.mirror.functional_reset()
                self._check_state(op)
            elif op in ('Step', 'GymStep', 'WrapStep'):
                idx = self.arng.randrange(len(ACTIONS6))
                action = ACTIONS6[idx]
                old = proj.state_to_json(self.env.state) if has_state else None
                if op == 'Step':
                    r, d = (self.outer.step(action) if idx % 2 else self.env.step(action))
                    ret_obs = info = None
                elif op == 'GymStep':
                    ret_obs, r, d, info = self.gym.step(idx)
                else:
                    ret_obs, r, d, info = self.wrap.step(idx)
                self.m_state, mr, md = self.mirror.functional_step(self.m_state, action)
                self._check_state(op)
                if not isinstance(r, float) or r != mr:
                    self.problems.append(f'{op}: reward {r!r} differs from the functional thread {mr!r}')
                if not isinstance(d, (bool, np.bool_)) or d != md:
                    self.problems.append(f'{op}: flag {d!r} differs from the functional thread {md!r}')
                if self.comps['trans'].last != (action.name,):
                    self.problems.append(f'{op}: index {idx} executed {self.comps["trans"].last} instead of {action.name}')
                new = proj.state_to_json(self.env.state)
                for k in ('rew', 'term'):
                    if self.comps[k].last != (old, action.name, new):
                        self.problems.append(f'{op}: {k} function was not called with (old state, action, new state)')
                if op in ('GymStep', 'WrapStep'):
                    mobs = self._mirror_obs()
                    if not (self.env.observation == mobs):
                        self.problems.append(f'{op}: cached observation is not the observation of the post-step state')
                    obs_rep = self.outer.observation_representation.convert(self.env.observation)
                    st_rep = self.outer.state_representation.convert(self.env.state)
                    if op == 'GymStep':
                        if not self._same(ret_obs, obs_rep):
                            self.problems.append('GymStep: returned observation is not the representation of the post-step observation')
                        if not self.gym.observation_space.contains(ret_obs):
                            self.problems.append('GymStep: returned observation outside the advertised observation space')
                    else:
                        if not self._same(ret_obs, st_rep):
                            self.problems.append('WrapStep: returned value is not the representation of the post-step state')
                        if 'observation' not in info or not self._same(info['observation'], obs_rep):
                            self.problems.append('WrapStep: info["observation"] is not the observation representation')
                        if not self.wrap.observation_space.contains(ret_obs):
                            self.problems.append('WrapStep: returned state outside the advertised space')
            elif op == 'StepInvalid':
                self.env.step(INVALID[self.arng.randrange(2)])
            elif op in ('ReadObs', 'OuterObs', 'GymObs'):
                if op == 'ReadObs':
                    ob = self.env.observation
                elif op == 'OuterObs':
                    rep = self.outer.observation
                    ob = self.env.observation
                    if not self._same(rep, self.outer.observation_representation.convert(ob)):
                        self.problems.append('OuterObs: not the representation of the inner observation')
                else:
                    rep = self.gym.observation
                    ob = self.env.observation
                    if not self._same(rep, self.outer.observation_representation.convert(ob)):
                        self.problems.append('GymObs: not the representation of the inner observation')
                    if not self.gym.observation_space.contains(rep):
                        self.problems.append('GymObs: outside the advertised observation space')
                if op in ('OuterObs', 'GymObs'):
                    # the caller may do what it likes with the arrays it was given
                    for arr in rep.values():
                        arr += 1
                if miss:
                    self._mirror_obs()
                if not (ob == self.m_obs):
                    self.problems.append(f'{op}: observation differs from functional_observation of the current state')
                if self.env.observation is not ob:
                    self.problems.append(f'{op}: repeated read returned a different object')
            elif op == 'ReadState':
                st = self.env.state
                self._check_state(op)
            elif op in ('OuterState', 'GymState'):
                rep = self.outer.state if op == 'OuterState' else self.gym.state
                if not self._same(rep, self.outer.state_representation.convert(self.env.state)):
                    self.problems.append(f'{op}: not the representation of the inner state')
                if op == 'GymState' and not self.gym.state_space.contains(rep):
                    self.problems.append('GymState: outside the advertised state space')
                for arr in rep.values():
                    arr += 1
            elif op == 'FuncReset':
                a, b = self.env.functional_reset(), self.mirror.functional_reset()
                if not (a == b):
                    self.problems.append('FuncReset: two environments with the same seed and history disagree')
            elif op == 'FuncStep':
                base_a = self.env.state if has_state else self.env.functional_reset()
                base_b = self.m_state if self.m_state is not None else self.mirror.functional_reset()
                action = ACTIONS6[self.arng.randrange(len(ACTIONS6))]
                if not has_state:
                    # the extra functional_reset above is one more reset call than the model counts
                    self.comps['reset'].n -= 1
                before = proj.state_to_json(base_a)
                a, b = self.env.functional_step(base_a, action), self.mirror.functional_step(base_b, action)
                if not (a[0] == b[0] and a[1] == b[1] and a[2] == b[2]):
                    self.problems.append('FuncStep: two environments with the same seed and history disagree')
                if proj.state_to_json(base_a) != before:
                    self.problems.append('FuncStep: functional_step modified its input state')
            elif op == 'FuncObs':
                base_a = self.env.state if has_state else None
                if base_a is None:
                    base_a, base_b = self.env.functional_reset(), self.mirror.functional_reset()
                    self.comps['reset'].n -= 1
                else:
                    base_b = self.m_state
                a, b = self.env.functional_observation(base_a), self.mirror.functional_observation(base_b)
                if not (a == b):
                    self.problems.append('FuncObs: two environments with the same seed and history disagree')
            elif op in ('GymReset', 'WrapReset'):
                ret = self.gym.reset() if op == 'GymReset' else self.wrap.reset()
                self.m_state = self.mirror.functional_reset()
                self._check_state(op)
                mobs = self._mirror_obs()
                if not (self.env.observation == mobs):
                    self.problems.append(f'{op}: observation is not that of the fresh state')
                want = (self.outer.observation_representation.convert(self.env.observation) if op == 'GymReset'
                        else self.outer.state_representation.convert(self.env.state))
                if not self._same(ret, want):
                    self.problems.append(f'{op}: returned value is not the representation of the fresh state / observation')
                space = self.gym.observation_space if op == 'GymReset' else self.wrap.observation_space
                if not space.contains(ret):
                    self.problems.append(f'{op}: returned value outside the advertised space')
            elif op in ('SetObsRep', 'SetStateRep'):
                name = self.rep_names[self.arng.randrange(3)]
                from gym_gridverse.gym import outer_space_to_gym_space
                if op == 'SetObsRep':
                    self.gym.set_observation_representation(name)
                    want = outer_space_to_gym_space(make_observation_representation(name, self.env.observation_space).space)
                    got = self.gym.observation_space
                else:
                    self.gym.set_state_representation(name)
                    want = outer_space_to_gym_space(make_state_representation(name, self.env.state_space).space)
                    got = self.gym.state_space
                    # the wrapper advertises the state space of the wrapped environment
                for k in want.spaces:
                    if k not in got.spaces or not (np.array_equal(want[k].low, got[k].low) and np.array_equal(want[k].high, got[k].high)):
                        self.problems.append(f'{op}: advertised space was not updated consistently for key {k}')
            else:
                raise AssertionError(op)
        except (RuntimeError, ValueError) as e:
            outcome = type(e).__name__
        # compare with the model
        exp_outcome, exp_draw, exp_calls, exp_cached = expect['outcome'], expect['may_draw'], expect['calls'], expect['cached_is_cur']
        if outcome != exp_outcome:
            self.problems.append(f'{op}: outcome {outcome}, the specification says {exp_outcome}')
        got = self.counters()
        if got != exp_calls:
            self.problems.append(f'{op}: component call counters {got} differ from the specification {exp_calls}')
        if not exp_draw and self.rng.n_calls != before_calls:
            self.problems.append(f'{op}: consumed randomness although the specification says it cannot')
        if self.rng.n_calls != self.mrng.n_calls:
            self.problems.append(f'{op}: generator use differs from the functional thread ({self.rng.n_calls} vs {self.mrng.n_calls} draws)')
        return self.problems


def model_behaviours(workdir, ops, depth, num=None, seed=0, tag='env'):
    """behaviours of the GVEnv machine (all of them up to `depth`, or `num` simulated ones), with per-step expectations"""
    os.makedirs(workdir, exist_ok=True)
    invs = ['NotStale', 'ObsAtMostOncePerState', 'RewardTermWithTransition', 'FailuresAreInert', 'NoStateBeforeReset',
            'RepeatedReadsAreFree', 'GymReturnsFresh', 'EmitFull']
    cfg = write_cfg(os.path.join(workdir, f'GVEnv_{tag}.cfg'), constants={'Depth': depth, 'Ops': tla_set(ops)}, invariants=invs)
    extra = [] if num is None else ['-simulate', f'num={num}', '-depth', str(depth + 1), '-seed', str(seed)]
    res = run_tlc('GVEnv', cfg=cfg, workers=1 if num is not None else 8, extra=extra, timeout=3000, check=False, heap='8g')
    if res.violated:
        raise RuntimeError(f'GVEnv: invariant {res.violated} violated on the model itself:\n' + res.raw[-2000:])
    if res.rc != 0 and num is None:
        raise RuntimeError('GVEnv failed:\n' + res.raw[-2000:])
    behs = []
    for t in res.find('BEH'):
        steps_ = []
        for s in t[1]:
            op, outcome, draw, cr, ct, crw, ctm, co, cur, cached = s
            prev = steps_[-1] if steps_ else {'calls': {'obs': 0}, 'cur': -1}
            steps_.append({'op': op, 'outcome': outcome, 'may_draw': draw,
                           'calls': {'reset': cr, 'trans': ct, 'rew': crw, 'term': ctm, 'obs': co},
                           'cur': cur, 'cached_is_cur': cached != -1 and cached == cur,
                           'miss': co > prev['calls']['obs'] and op not in ('FuncObs',), 'had_state': prev['cur'] != -1})
        behs.append(steps_)
    if num is not None:
        behs = behs[:num]   # TLC's simulator overshoots the requested number of traces
    return behs, res


def replay_behaviours(data, behaviours, seed, layer='inner'):
    """returns (n_ops, failures) where failures = list of (behaviour ops, step index, problems)"""
    failures = []
    n = 0
    for bi, beh in enumerate(behaviours):
        eut = EnvUnderTest(data, seed=seed + bi % 7, action_seed=seed * 31 + bi, layer=layer)
        for k, step in enumerate(beh):
            probs = eut.do(step['op'], step)
            n += 1
            if probs:
                failures.append(([s['op'] for s in beh], k, probs))
                break
    return n, failures
