"""Replay behaviours of the GVCache model on the real lru_cache-wrapped functions."""
from __future__ import annotations

import os

from harness.tlc import run_tlc, write_cfg


def model_behaviours(workdir, cap, nkeys, depth, num=None, seed=0):
    """behaviours of GVCache: exhaustive when num is None, else `num` simulated ones.
    returns (list of [(key, hit)...], TLCResult)"""
    os.makedirs(workdir, exist_ok=True)
    cfg = write_cfg(os.path.join(workdir, f'GVCache_{cap}_{nkeys}_{depth}.cfg'),
                    constants={'Cap': cap, 'NKeys': nkeys, 'Depth': depth},
                    invariants=['InvBounded', 'InvNoDup', 'InvAnswers', 'InvCounters', 'Emit'])
    extra = [] if num is None else ['-simulate', f'num={num}', '-depth', str(depth + 1), '-seed', str(seed)]
    res = run_tlc('GVCache', cfg=cfg, workers=1, extra=extra, timeout=1200, check=False)
    if res.violated or (res.rc != 0 and num is None):
        raise RuntimeError('GVCache model failed:\n' + res.raw[-2000:])
    behs = [[(k, h) for (k, h) in t[1]] for t in res.find('BEH')]
    if num is not None:
        behs = behs[:num]   # TLC's simulator overshoots the requested number of traces
    return behs, res


def replay(cached_fn, uncached_fn, key_to_args, behaviours, equal=lambda a, b: a == b, freeze=lambda x: x):
    """drive the real cached function along the behaviours; after every query compare the answer with the
    uncached function and the first answer, and the hit/miss counters with the model's.
    returns (n_queries, mismatches)"""
    mismatches = []
    n = 0
    for bi, beh in enumerate(behaviours):
        if hasattr(cached_fn, 'cache_clear'):
            cached_fn.cache_clear()
        first = {}
        hits = misses = 0
        for step, (k, hit) in enumerate(beh):
            args = key_to_args(k)
            ans = cached_fn(*args)
            n += 1
            hits += 1 if hit else 0
            misses += 0 if hit else 1
            info = cached_fn.cache_info() if hasattr(cached_fn, 'cache_info') else None   # a memo without counters is still a memo
            if info is not None and (info.hits, info.misses) != (hits, misses):
                # the capacity / eviction policy is not part of any property: drift, not a violation
                mismatches.append({'behaviour': bi, 'step': step, 'what': 'hit/miss counters differ from the model', 'drift': True,
                                   'model': [hits, misses], 'code': [info.hits, info.misses]})
                hits, misses = info.hits, info.misses
            fz = freeze(ans)
            if k in first and not equal(first[k], fz):
                mismatches.append({'behaviour': bi, 'step': step, 'key': k, 'what': 'answer differs from the first answer'})
            first.setdefault(k, fz)
            if not equal(freeze(uncached_fn(*args)), fz):
                mismatches.append({'behaviour': bi, 'step': step, 'key': k, 'what': 'cached answer differs from the uncached function'})
    return n, mismatches
