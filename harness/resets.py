"""Reset records (C13) and initial states for the winnability search (C14)."""
from __future__ import annotations

import json
import os
import random

from harness import boot  # noqa: F401
from harness import build, proj, rngtools
from harness.tlc import run_many

import numpy as np
from gym_gridverse.debugging import reset_gv_debug

RESET_NAMES = ['empty', 'rooms', 'dynamic_obstacles', 'keydoor', 'crossing', 'teleport', 'memory', 'memory_rooms']


def call_reset(f, p, rng):
    """call the real reset function through the registry factory; returns (outcome, state json or None)"""
    try:
        fn = build.reset(dict(p, name=f))
        st = fn(rng=rng)
        return 'ok', proj.state_to_json(st)
    except Exception as e:
        return proj.outcome_class(e), None


def record(rec_id, f, p, seed=None, script=None, drift=False):
    rng = np.random.default_rng(seed) if script is None else rngtools.ScriptedRNG(script)
    outcome, st = call_reset(f, p, rng)
    return {'id': rec_id, 'f': f, 'p': p, 'outcome': outcome, 'st': st if st is not None else {}, 'drift': bool(drift and outcome == 'ok'),
            'seed': seed if seed is not None else -1}


def all_outputs(f, p, limit=20000):
    """every output of the reset function (all resolutions of its random choices)"""
    fn = build.reset(dict(p, name=f))
    outs = []
    seen = set()
    for st, script in rngtools.enumerate_outcomes(lambda rng: fn(rng=rng), limit=limit):
        j = proj.state_to_json(st)
        k = json.dumps(j, sort_keys=True)
        if k not in seen:
            seen.add(k)
            outs.append(j)
    return outs


def _worker(args):
    path, jobs = args
    reset_gv_debug(True)
    n_ok = 0
    distinct = set()
    with open(path, 'w') as f:
        for job in jobs:
            if job.get('enumerate'):
                try:
                    outs = all_outputs(job['f'], job['p'], limit=job.get('limit', 3000))
                    recs = [{'id': job['enum_base'] + k, 'f': job['f'], 'p': job['p'], 'outcome': 'ok', 'st': st,
                             'drift': job.get('drift', False), 'seed': -1} for k, st in enumerate(outs)]
                except rngtools.NotEnumerable:
                    recs = []
                except Exception as e:
                    recs = [{'id': job['enum_base'], 'f': job['f'], 'p': job['p'], 'outcome': proj.outcome_class(e), 'st': {},
                             'drift': False, 'seed': -1}]
            else:
                recs = [record(job['rec_id'], job['f'], job['p'], seed=job.get('seed'), drift=job.get('drift', False))]
            for rec in recs:
                f.write(json.dumps(rec, separators=(',', ':')) + '\n')
                if rec['outcome'] == 'ok':
                    n_ok += 1
                    distinct.add(hash(json.dumps(rec['st'], sort_keys=True)))
    return n_ok, len(distinct)


def run_jobs(workdir, jobs, nshards=16, tag='reset'):
    import multiprocessing as mp

    os.makedirs(workdir, exist_ok=True)
    nshards = max(1, min(nshards, len(jobs)))
    parts = [jobs[i::nshards] for i in range(nshards)]
    paths = [os.path.join(workdir, f'{tag}_{i:02d}.ndjson') for i in range(nshards)]
    with mp.Pool(min(16, nshards)) as pool:
        counts = pool.map(_worker, list(zip(paths, parts)))
    n_records = sum(1 for p in paths for _ in open(p))
    return paths, {'records': n_records, 'returned': sum(c[0] for c in counts), 'distinct_states': sum(c[1] for c in counts)}


def validate(paths, parallel=16):
    results = run_many([dict(module='Trace_Reset', env={'TRACE_FILE': p}, workers=1, timeout=3600) for p in paths], parallel=parallel)
    bad, generated, distinct, done = [], 0, 0, 0
    for p, res in zip(paths, results):
        generated += res.generated
        distinct += res.distinct
        d = res.find('DONE')
        if not d:
            raise RuntimeError(f'TLC did not finish {p}:\n{res.raw[-2000:]}')
        done += d[0][1]
        for t in res.find('BAD'):
            bad.append({'shard': p, 'id': t[1], 'clauses': sorted(t[2]['set'])})
        if res.find('UNPARSED'):
            raise RuntimeError(f'unparsable TLC output: {res.find("UNPARSED")[0]}')
    return bad, {'generated': generated, 'distinct': distinct, 'done': done}


def load_record(shard, rec_id):
    with open(shard) as f:
        for line in f:
            r = json.loads(line)
            if r['id'] == rec_id:
                return r
    return None
