"""Replay schedules of GVMultiEnv on real environments; digests and global-generator audits (C02)."""
from __future__ import annotations

import hashlib
import json
import os
import random as pyrandom
import subprocess
import sys

from harness import boot  # noqa: F401
from harness import config, proj

import numpy as np
from gym_gridverse import rng as gv_rng
from gym_gridverse.action import Action
from gym_gridverse.debugging import reset_gv_debug, gv_debug

ACTIONS = list(Action)
_POOL = {}
_COUNT = {}


def digest(obj) -> str:
    return hashlib.sha256(json.dumps(obj, sort_keys=True, separators=(',', ':')).encode()).hexdigest()[:20]


def globals_state():
    g = gv_rng.get_gv_rng().bit_generator.state
    n = np.random.get_state()
    return (json.dumps(g, sort_keys=True, default=str), hashlib.sha1(n[1].tobytes()).hexdigest() + str(n[2:]), hash(pyrandom.getstate()))


def action_for(env, prefix_len: int) -> Action:
    acts = env.action_space.actions
    return acts[(prefix_len * 3 + 1) % len(acts)]


def env_op(env, op, prefix_len):
    """perform an operation on a real environment; returns the projected visible result"""
    if op == 'Reset':
        env.reset()
        return {'state': proj.state_to_json(env.state)}
    if op == 'Step':
        r, d = env.step(action_for(env, prefix_len))
        return {'state': proj.state_to_json(env.state), 'r': repr(float(r)), 'd': bool(d)}
    if op == 'ReadObs':
        return {'obs': proj.obs_to_json(env.observation)}
    if op == 'ReadState':
        return {'state': proj.state_to_json(env.state)}
    raise AssertionError(op)


def replay_schedule(name, data, seeds, sched, memo, problems, lib_state=None):
    # environments are pooled per process and re-seeded for every schedule; every 50th schedule uses fresh ones
    pool = _POOL.setdefault(name, [])
    _COUNT[name] = _COUNT.get(name, 0) + 1
    if _COUNT[name] % 50 == 1:
        pool.clear()
    while len(pool) < len(seeds):
        pool.append(config.build_env(data))
    envs = pool[:len(seeds)]
    for e, s in zip(envs, seeds):
        e.set_seed(s)
    prefixes = [[] for _ in seeds]
    for (e, op) in sched:
        before = globals_state()
        if e == 0:
            if op == 'LibOp':
                gv_rng.get_gv_rng().random()
                # an unseeded library call
                from gym_gridverse.envs.reset_functions import factory as rf
                from gym_gridverse.geometry import Shape
                rf('empty', shape=Shape(5, 5), random_agent=True)()
            elif op == 'NpOp':
                np.random.random()
                np.random.seed(np.random.randint(100000))
            elif op == 'PyOp':
                pyrandom.random()
                pyrandom.seed(pyrandom.randrange(100000))
            elif op == 'ToggleDebug':
                reset_gv_debug(not gv_debug())
            continue
        idx = e - 1
        res = env_op(envs[idx], op, len(prefixes[idx]))
        prefixes[idx].append(op)
        after = globals_state()
        if after != before:
            which = [n for n, a, b in zip(('library generator', 'numpy global generator', 'python random'), before, after) if a != b]
            problems.append({'config': name, 'what': f'seeded operation {op} perturbed the {", ".join(which)}', 'seeds': list(seeds), 'sched': sched})
            return
        key = (name, seeds[idx], tuple(prefixes[idx]))
        dg = digest(res)
        if key in memo and memo[key] != dg:
            problems.append({'config': name, 'what': f'same configuration, seed {seeds[idx]} and own history {prefixes[idx]} gave a different result '
                             f'(schedule-dependent or not reproducible)', 'seeds': list(seeds), 'sched': sched})
            return
        memo.setdefault(key, dg)


def canonical_digests(files, seeds, length):
    """digests of canonical prefixes, for the cross-process comparison"""
    out = {}
    for path in files:
        name = os.path.basename(path)
        data = config.load(path)
        for s in seeds:
            env = config.build_env(data)
            env.set_seed(s)
            prefix = []
            for k in range(length):
                op = 'Reset' if k == 0 or k % 11 == 10 else ('ReadObs' if k % 3 == 2 else 'Step')
                res = env_op(env, op, len(prefix))
                prefix.append(op)
                out[f'{name}|{s}|{k}'] = digest(res)
    return out


def component_audit(seed):
    """every stochastic built-in component, called with an explicit generator, leaves the globals alone,
    draws only from the generator it is given and is reproducible"""
    from harness import build, rngtools, steps
    from gym_gridverse.envs.transition_functions import transition_with_copy

    problems = []
    n = 0

    def audit(label, call, expect_draws=True):
        nonlocal n
        outs = []
        for rep in range(2):
            rec = rngtools.RecordingRNG(seed)
            before = globals_state()
            out = call(rec)
            after = globals_state()
            n += 1
            if before != after:
                problems.append({'what': f'{label} with an explicit rng perturbed a global generator'})
            if expect_draws and rec.n_calls == 0:
                problems.append({'what': f'{label} did not draw from the generator it was given'})
            outs.append(json.dumps(out, sort_keys=True))
        if outs[0] != outs[1]:
            problems.append({'what': f'{label} is not reproducible for a fixed seed'})

    C = steps.C
    resets = [C('empty', shape=[5, 6], random_agent=True, random_exit=True), C('rooms', shape=[7, 7], layout=[2, 2]),
              C('dynamic_obstacles', shape=[6, 6], num_obstacles=3, random_agent=True), C('keydoor', shape=[6, 7]),
              C('crossing', shape=[7, 7], num_rivers=2, object_type='Wall'), C('teleport', shape=[6, 6]),
              C('memory', shape=[5, 7], colors=['RED', 'GREEN', 'BLUE']),
              C('memory_rooms', shape=[7, 7], layout=[2, 2], colors=['RED', 'GREEN', 'BLUE', 'YELLOW'], num_beacons=2, num_exits=2)]
    for rc in resets:
        fn = build.reset(rc)
        audit(f'reset function {rc["name"]}', lambda r, fn=fn: proj.state_to_json(fn(rng=r)))
    O = steps.O
    st = {'grid': [[O('Floor'), O('MovingObstacle'), O('Floor')], [O('Telepod', 0, 'RED'), O('Floor'), O('Telepod', 0, 'RED')],
                   [O('Floor'), O('MovingObstacle'), O('Telepod', 0, 'RED')]], 'pos': [1, 0], 'ori': 'F', 'item': O('NoneGridObject')}
    for comps in (steps.COMPOSITIONS['only_obstacles'], steps.COMPOSITIONS['only_teleport'], steps.COMPOSITIONS['all'], steps.COMPOSITIONS['nested']):
        tf = build.transition_list(comps)
        audit('transition ' + '+'.join(c['name'] for c in comps),
              lambda r, tf=tf: proj.state_to_json(transition_with_copy(tf, proj.state_from_json(st), Action.TURN_LEFT, rng=r)))
    of = build.observation(C('stochastic_raytracing', area=[[-2, 0], [-1, 1]]))
    audit('observation stochastic_raytracing', lambda r: proj.obs_to_json(of(proj.state_from_json(st), rng=r)))
    of2 = build.observation(C('from_visibility', area=[[-2, 0], [-1, 1]], visibility_function=C('stochastic_raytracing')))
    audit('observation from_visibility(stochastic_raytracing)', lambda r: proj.obs_to_json(of2(proj.state_from_json(st), rng=r)))
    return n, problems


if __name__ == '__main__':
    # subprocess entry: print canonical digests as JSON (used with different PYTHONHASHSEED values)
    files = sys.argv[1].split(',')
    seeds = [int(x) for x in sys.argv[2].split(',')]
    print(json.dumps(canonical_digests(files, seeds, int(sys.argv[3]))))
