"""Build real components / environments from the specification's configuration data."""
from __future__ import annotations

from harness import boot  # noqa: F401
from harness import proj

from gym_gridverse.action import Action
from gym_gridverse.envs import (
    observation_functions as observation_fs,
    reset_functions as reset_fs,
    reward_functions as reward_fs,
    terminating_functions as terminating_fs,
    transition_functions as transition_fs,
    visibility_functions as visibility_fs,
)
from gym_gridverse.envs.gridworld import GridWorld
from gym_gridverse.geometry import Area, Shape, distance_function_factory
from gym_gridverse.grid_object import Color, grid_object_registry
from gym_gridverse.spaces import ActionSpace, ObservationSpace, StateSpace

MILLI_KEYS = {
    'reward', 'reward_on', 'reward_off', 'reward_per_unit_distance', 'reward_closer',
    'reward_further', 'reward_open', 'reward_close', 'reward_pick', 'reward_drop',
    'reward_good', 'reward_bad',
}


def _kwargs(comp: dict) -> dict:
    kw = {}
    for k, v in comp.items():
        if k == 'name':
            continue
        if k in MILLI_KEYS:
            kw[k] = v / 1000.0
        elif k == 'object_type':
            kw[k] = grid_object_registry.from_name(v)
        elif k == 'distance_function':
            kw[k] = distance_function_factory(v)
        elif k == 'transition_functions':
            kw[k] = [transition(c) for c in v]
        elif k == 'reward_functions':
            kw[k] = [reward(c) for c in v]
        elif k == 'terminating_functions':
            kw[k] = [termination(c) for c in v]
        elif k == 'shape':
            kw[k] = Shape(*v)
        elif k == 'layout':
            kw[k] = tuple(v)
        elif k == 'area':
            kw[k] = proj.area_from_json(v)
        elif k == 'colors':
            kw[k] = set(Color[c] for c in v)
        elif k == 'visibility_function':
            kw[k] = visibility(v)
        else:
            kw[k] = v
    return kw


def transition(comp: dict):
    return transition_fs.factory(comp['name'], **_kwargs(comp))


def transition_list(comps: list):
    return transition_fs.factory('chain', transition_functions=[transition(c) for c in comps])


def reward(comp: dict):
    return reward_fs.factory(comp['name'], **_kwargs(comp))


def termination(comp: dict):
    return terminating_fs.factory(comp['name'], **_kwargs(comp))


def visibility(comp: dict):
    return visibility_fs.factory(comp['name'], **_kwargs(comp))


def observation(comp: dict):
    return observation_fs.factory(comp['name'], **_kwargs(comp))


def reset(comp: dict):
    return reset_fs.factory(comp['name'], **_kwargs(comp))


def state_space(sp: dict) -> StateSpace:
    return StateSpace(
        Shape(*sp['shape']),
        [grid_object_registry.from_name(t) for t in sp['types']],
        [Color[c] for c in sp['colors']],
    )


def observation_space(sp: dict) -> ObservationSpace:
    return ObservationSpace(
        Shape(*sp['shape']),
        [grid_object_registry.from_name(t) for t in sp['types']],
        [Color[c] for c in sp['colors']],
    )


def action_space(actions) -> ActionSpace:
    return ActionSpace([Action[a] for a in actions])
