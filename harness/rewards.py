"""Reward / termination records for Trace_Reward."""
from __future__ import annotations

import json
import math
import os
import random
from typing import List

from harness import boot  # noqa: F401
from harness import build, proj, steps
from harness.tlc import run_many

from gym_gridverse.action import Action
from gym_gridverse.envs.transition_functions import transition_with_copy
from gym_gridverse.debugging import reset_gv_debug

C = steps.C
O = steps.O


def component_lists(rng: random.Random, n_random=1):
    """reward components, termination components, agreement / sum / any-all index tables"""
    def rv():
        return rng.choice([-1, 1]) * rng.choice([0, 50, 125, 200, 1000, 2500, 5000, rng.randint(1, 9999)])

    r: List[dict] = []
    r.append(C('reach_exit'))
    r.append(C('reach_exit', reward_on=5000, reward_off=0))
    r.append(C('reach_exit', reward_on=-250, reward_off=125))
    agree = []
    tlist: List[dict] = [C('reach_exit')]
    agree.append({'ri': 2, 'ti': 1, 'on': 5000})
    agree.append({'ri': 3, 'ti': 1, 'on': -250})
    agree.append({'ri': 1, 'ti': 1, 'on': 1000})
    for t in ['Exit', 'Key', 'MovingObstacle', 'Telepod', 'Wall', 'Floor', 'Beacon', 'Door', 'Box']:
        r.append(C('overlap', object_type=t))
        tlist.append(C('overlap', object_type=t))
    r.append(C('overlap', object_type='Key', reward_on=rv(), reward_off=rv()))
    r.append(C('living_reward'))
    r.append(C('living_reward', reward=-50))
    r.append(C('bump_moving_obstacle'))
    r.append(C('bump_moving_obstacle', reward=rv()))
    r.append(C('bump_into_wall'))
    r.append(C('bump_into_wall', reward=rv()))
    tlist.append(C('bump_moving_obstacle'))
    tlist.append(C('bump_into_wall'))
    for t in ['Exit', 'Key', 'Beacon', 'Door']:   # Door: a target that may itself block movement (closed / locked)
        r.append(C('proportional_to_distance', object_type=t))
        r.append(C('proportional_to_distance', object_type=t, distance_function='manhattan', reward_per_unit_distance=rng.choice([-100, 250, -1500, 20])))
        r.append(C('proportional_to_distance', object_type=t, distance_function='euclidean', reward_per_unit_distance=rng.choice([-100, 250, -1500, 1000])))
        r.append(C('getting_closer', object_type=t))
        r.append(C('getting_closer', object_type=t, distance_function='manhattan', reward_closer=200, reward_further=-200))
        r.append(C('getting_closer', object_type=t, distance_function='euclidean', reward_closer=rv(), reward_further=rv()))
        r.append(C('getting_closer_shortest_path', object_type=t))
        r.append(C('getting_closer_shortest_path', object_type=t, reward_closer=rv(), reward_further=rv()))
    r.append(C('actuate_door'))
    r.append(C('actuate_door', reward_open=rv(), reward_close=rv()))
    for t in ['Key', 'Wall', 'Door']:
        r.append(C('pickndrop', object_type=t))
    r.append(C('pickndrop', object_type='Key', reward_pick=rv(), reward_drop=rv()))
    r.append(C('reach_exit_memory'))
    r.append(C('reach_exit_memory', reward_good=5000, reward_bad=-5000))
    for _ in range(n_random):
        r.append(C('reach_exit', reward_on=rv(), reward_off=rv()))
    # composites over the components above that have no preconditions
    simple = [k for k, c in enumerate(r) if c['name'] in ('reach_exit', 'overlap', 'living_reward', 'bump_moving_obstacle', 'bump_into_wall', 'actuate_door', 'pickndrop')]
    sums = []
    for _ in range(3):
        parts = rng.sample(simple, rng.randint(1, 6))
        r.append(C('reduce_sum', reward_functions=[r[k] for k in parts]))
        sums.append({'c': len(r), 'parts': [k + 1 for k in parts]})
    # nested sum, and the shipped key-door list
    r.append(C('reduce_sum', reward_functions=[r[-1], r[-2], C('living_reward', reward=-50)]))
    r.append(steps.R_SHIPPED)
    anyall = []
    base = list(range(len(tlist)))
    for kind in ['any', 'all', 'any', 'all']:
        parts = rng.sample(base, rng.randint(1, 4))
        tlist.append(C('reduce_' + kind, terminating_functions=[tlist[k] for k in parts]))
        anyall.append({'c': len(tlist), 'parts': [k + 1 for k in parts], 'kind': kind})
    tlist.append(C('reduce_any', terminating_functions=[tlist[-1], C('reduce_all', terminating_functions=[tlist[-2], C('reach_exit')])]))
    tlist.append(steps.TERM_SHIPPED)
    return r, tlist, agree, sums, anyall


def _res_reward(f, st, a, nxt):
    try:
        v = f(st, a, nxt)
    except Exception as e:
        return {'o': 'raise:' + type(e).__name__, 'v': 0, 'x': False, 't': ''}
    t = 'float' if isinstance(v, float) else type(v).__name__
    try:
        fv = float(v)
        if not math.isfinite(fv):
            return {'o': 'ok', 'v': 0, 'x': False, 't': t}
        return {'o': 'ok', 'v': proj.milli(fv), 'x': proj.is_milli_exact(fv), 't': t}
    except Exception:
        return {'o': 'ok', 'v': 0, 'x': False, 't': t}


def _res_term(f, st, a, nxt):
    try:
        v = f(st, a, nxt)
    except Exception as e:
        return {'o': 'raise:' + type(e).__name__, 'v': False, 't': ''}
    import numpy as np
    return {'o': 'ok', 'v': bool(v), 't': 'bool' if isinstance(v, (bool, np.bool_)) else type(v).__name__}


_cache = {}


def _built(kind, comp):
    key = kind + json.dumps(comp, sort_keys=True)
    if key not in _cache:
        _cache[key] = build.reward(comp) if kind == 'R' else build.termination(comp)
    return _cache[key]


def make_record(rec_id, st_json, action, nexts_json, lists, dyn_comps=None, dyn_seeds=(0,)):
    """evaluate every component on (st, action, next) for the given nexts plus the real successors"""
    import numpy as np

    rcomps, tcomps, agree, sums, anyall = lists
    st = proj.state_from_json(st_json)
    a = Action[action]
    nexts = [json.loads(json.dumps(n)) for n in nexts_json]
    if dyn_comps is not None:
        tf = steps._runner.get('T', dyn_comps)
        for sd in dyn_seeds:
            try:
                nxt = transition_with_copy(tf, st, a, rng=np.random.default_rng(sd))
                j = proj.state_to_json(nxt)
                if j not in nexts:
                    nexts.append(j)
            except Exception:
                pass
    rres, tres = [], []
    for nj in nexts:
        nxt = proj.state_from_json(nj)
        rres.append([_res_reward(_built('R', c), st, a, nxt) for c in rcomps])
        tres.append([_res_term(_built('X', c), st, a, nxt) for c in tcomps])
    return {'id': rec_id, 'st': st_json, 'a': action, 'nexts': nexts, 'rcomps': rcomps, 'tcomps': tcomps,
            'rres': rres, 'tres': tres, 'agree': agree, 'sums': sums, 'anyall': anyall}


def _worker(args):
    path, jobs, lists = args
    reset_gv_debug(True)
    n_eval = 0
    distinct = set()
    with open(path, 'w') as f:
        for job in jobs:
            rec = make_record(lists=lists, **job)
            f.write(json.dumps(rec, separators=(',', ':')) + '\n')
            for n, nj in enumerate(rec['nexts']):
                n_eval += len(rec['rcomps']) + len(rec['tcomps'])
                sig = tuple(x['v'] for x in rec['rres'][n]) + tuple(x['v'] for x in rec['tres'][n])
                distinct.add(hash(sig))
    return len(jobs), n_eval, len(distinct)


def run_jobs(workdir, jobs, lists, nshards=16, tag='rew'):
    import multiprocessing as mp

    os.makedirs(workdir, exist_ok=True)
    nshards = max(1, min(nshards, len(jobs)))
    per = (len(jobs) + nshards - 1) // nshards
    parts = [jobs[i * per:(i + 1) * per] for i in range(nshards)]
    parts = [p for p in parts if p]
    paths = [os.path.join(workdir, f'{tag}_{i:02d}.ndjson') for i in range(len(parts))]
    with mp.Pool(min(16, len(parts))) as pool:
        counts = pool.map(_worker, [(p, part, lists) for p, part in zip(paths, parts)])
    return paths, {'records': sum(c[0] for c in counts), 'evaluations': sum(c[1] for c in counts),
                   'distinct_value_vectors': sum(c[2] for c in counts)}


def validate(paths, parallel=16):
    results = run_many([dict(module='Trace_Reward', env={'TRACE_FILE': p}, workers=1, timeout=3600) for p in paths], parallel=parallel)
    bad, generated, distinct, done = [], 0, 0, 0
    for p, res in zip(paths, results):
        generated += res.generated
        distinct += res.distinct
        d = res.find('DONE')
        if not d:
            raise RuntimeError(f'TLC did not finish {p}:\n{res.raw[-2000:]}')
        done += d[0][1]
        for t in res.find('BAD'):
            bad.append({'shard': p, 'id': t[1], 'fails': t[2]['set']})
        if res.find('UNPARSED'):
            raise RuntimeError(f'unparsable TLC output: {res.find("UNPARSED")[0]}')
    return bad, {'generated': generated, 'distinct': distinct, 'done': done}
