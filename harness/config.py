"""Configurations: shipped YAML data -> the specification's configuration records."""
from __future__ import annotations

import copy
import glob
import os

from harness import boot  # noqa: F401
from harness import build

import yaml  # the shim or a real PyYAML

REPO = boot.REPO


def shipped_files():
    return sorted(glob.glob(os.path.join(REPO, 'yaml', '*.yaml')))


def registered_files():
    return sorted(glob.glob(os.path.join(REPO, 'gym_gridverse', 'registered_envs', '*.yaml')))


def load(path):
    with open(path) as f:
        return yaml.safe_load(f)


def _milli(v):
    return int(round(float(v) * 1000))


def comp_to_spec(d: dict) -> dict:
    """a component mapping of a YAML file -> specification component (rewards in milli-units)"""
    out = {}
    for k, v in d.items():
        if k == 'name':
            out[k] = str(v).split(':')[-1]      # custom components: "module:name"
        elif k in build.MILLI_KEYS:
            out[k] = _milli(v)
        elif k in ('transition_functions', 'reward_functions', 'terminating_functions'):
            out[k] = [comp_to_spec(c) for c in v]
        elif k in ('reward_function', 'visibility_function'):
            out[k] = comp_to_spec(v)
        else:
            out[k] = v
    return out


ALL_ACTIONS = ['MOVE_FORWARD', 'MOVE_BACKWARD', 'MOVE_LEFT', 'MOVE_RIGHT', 'TURN_LEFT', 'TURN_RIGHT', 'ACTUATE', 'PICK_N_DROP']


def spec_config(data: dict) -> dict:
    """the environment described by the configuration data, in the specification's vocabulary"""
    return {
        'state_space': {'types': [t.split(':')[-1] for t in data['state_space']['objects']], 'colors': list(data['state_space']['colors'])},
        'observation_space': {'types': [t.split(':')[-1] for t in data['observation_space']['objects']], 'colors': list(data['observation_space']['colors'])},
        'actions': list(data.get('action_space', ALL_ACTIONS)),
        'reset': comp_to_spec(data['reset_function']),
        'comps': [comp_to_spec(c) for c in data['transition_functions']],
        'rew': {'name': 'reduce_sum', 'reward_functions': [comp_to_spec(c) for c in data['reward_functions']]},
        'obs': comp_to_spec(data['observation_function']),
        'term': comp_to_spec(data['terminating_function']),
    }


def build_env(data: dict):
    from gym_gridverse.envs.yaml.factory import factory_env_from_data

    return factory_env_from_data(copy.deepcopy(data))


def goal_kind(cfg: dict) -> str:
    return 'memory' if cfg['reset']['name'] in ('memory', 'memory_rooms') else 'exit'


def reset_params(cfg: dict) -> dict:
    """parameters of the reset function as the specification's Init_<f>(p) expects them"""
    r = dict(cfg['reset'])
    name = r.pop('name')
    defaults = {
        'empty': {'random_agent': False, 'random_exit': False},
        'dynamic_obstacles': {'random_agent': False},
    }.get(name, {})
    accepted = {
        'empty': ['shape', 'random_agent', 'random_exit'], 'rooms': ['shape', 'layout'],
        'dynamic_obstacles': ['shape', 'num_obstacles', 'random_agent'], 'keydoor': ['shape'],
        'crossing': ['shape', 'num_rivers', 'object_type'], 'teleport': ['shape'], 'memory': ['shape', 'colors'],
        'memory_rooms': ['shape', 'layout', 'colors', 'num_beacons', 'num_exits'], 'coin_maze': [],
    }[name]
    p = dict(defaults)
    p.update({k: v for k, v in r.items() if k in accepted})
    return name, p


def synthetic_everything():
    """a configuration using every stochastic built-in component at once (random reset with random agent,
    obstacles, teleport-capable chain, stochastic observation): not shipped, assembled for the rng-plumbing checks"""
    return {
        'state_space': {'objects': ['Wall', 'Floor', 'Exit', 'MovingObstacle', 'Telepod', 'Key', 'Door'], 'colors': ['NONE', 'RED', 'YELLOW']},
        'observation_space': {'objects': ['Wall', 'Floor', 'Exit', 'MovingObstacle', 'Telepod', 'Key', 'Door'], 'colors': ['NONE', 'RED', 'YELLOW']},
        'reset_function': {'name': 'dynamic_obstacles', 'shape': [6, 7], 'num_obstacles': 3, 'random_agent': True},
        'transition_functions': [{'name': 'move_agent'}, {'name': 'turn_agent'}, {'name': 'actuate_door'}, {'name': 'actuate_box'},
                                 {'name': 'pickndrop'}, {'name': 'move_obstacles'}, {'name': 'teleport'}],
        'reward_functions': [{'name': 'reach_exit', 'reward_on': 5.0, 'reward_off': 0.0}, {'name': 'bump_moving_obstacle', 'reward': -1.0},
                             {'name': 'getting_closer_shortest_path', 'object_type': 'Exit', 'reward_closer': 0.25, 'reward_further': -0.25},
                             {'name': 'living_reward', 'reward': -0.05}],
        'observation_function': {'name': 'from_visibility', 'area': [[-4, 0], [-2, 2]], 'visibility_function': {'name': 'stochastic_raytracing'}},
        'terminating_function': {'name': 'reduce_any', 'terminating_functions': [{'name': 'reach_exit'}, {'name': 'reduce_all', 'terminating_functions': [
            {'name': 'bump_moving_obstacle'}, {'name': 'overlap', 'object_type': 'MovingObstacle'}]}]},
    }
