"""Configurations: shipped YAML data -> the specification's configuration records."""
from __future__ import annotations

import copy
import glob
import os

from harness import boot  # noqa: F401
from harness import build

import yaml  # the shim or a real PyYAML

REPO = boot.REPO


def shipped_files():
    return sorted(glob.glob(os.path.join(REPO, 'yaml', '*.yaml')))


def registered_files():
    return sorted(glob.glob(os.path.join(REPO, 'gym_gridverse', 'registered_envs', '*.yaml')))


def load(path):
    with open(path) as f:
        return yaml.safe_load(f)


def _milli(v):
    return int(round(float(v) * 1000))


def comp_to_spec(d: dict) -> dict:
    """a component mapping of a YAML file -> specification component (rewards in milli-units)"""
    out = {}
    for k, v in d.items():
        if k == 'name':
            out[k] = str(v).split(':')[-1]      # custom components: "module:name"
        elif k in build.MILLI_KEYS:
            out[k] = _milli(v)
        elif k in ('transition_functions', 'reward_functions', 'terminating_functions'):
            out[k] = [comp_to_spec(c) for c in v]
        elif k in ('reward_function', 'visibility_function'):
            out[k] = comp_to_spec(v)
        else:
            out[k] = v
    return out


ALL_ACTIONS = ['MOVE_FORWARD', 'MOVE_BACKWARD', 'MOVE_LEFT', 'MOVE_RIGHT', 'TURN_LEFT', 'TURN_RIGHT', 'ACTUATE', 'PICK_N_DROP']


def spec_config(data: dict) -> dict:
    """the environment described by the configuration data, in the specification's vocabulary"""
    return {
        'state_space': {'types': [t.split(':')[-1] for t in data['state_space']['objects']], 'colors': list(data['state_space']['colors'])},
        'observation_space': {'types': [t.split(':')[-1] for t in data['observation_space']['objects']], 'colors': list(data['observation_space']['colors'])},
        'actions': list(data.get('action_space', ALL_ACTIONS)),
        'reset': comp_to_spec(data['reset_function']),
        'comps': [comp_to_spec(c) for c in data['transition_functions']],
        'rew': {'name': 'reduce_sum', 'reward_functions': [comp_to_spec(c) for c in data['reward_functions']]},
        'obs': comp_to_spec(data['observation_function']),
        'term': comp_to_spec(data['terminating_function']),
    }


def build_env(data: dict):
    from gym_gridverse.envs.yaml.factory import factory_env_from_data

    return factory_env_from_data(copy.deepcopy(data))


def goal_kind(cfg: dict) -> str:
    return 'memory' if cfg['reset']['name'] in ('memory', 'memory_rooms') else 'exit'


def reset_params(cfg: dict) -> dict:
    """parameters of the reset function as the specification's Init_<f>(p) expects them"""
    r = dict(cfg['reset'])
    name = r.pop('name')
    defaults = {
        'empty': {'random_agent': False, 'random_exit': False},
        'dynamic_obstacles': {'random_agent': False},
    }.get(name, {})
    accepted = {
        'empty': ['shape', 'random_agent', 'random_exit'], 'rooms': ['shape', 'layout'],
        'dynamic_obstacles': ['shape', 'num_obstacles', 'random_agent'], 'keydoor': ['shape'],
        'crossing': ['shape', 'num_rivers', 'object_type'], 'teleport': ['shape'], 'memory': ['shape', 'colors'],
        'memory_rooms': ['shape', 'layout', 'colors', 'num_beacons', 'num_exits'], 'coin_maze': [],
    }[name]
    p = dict(defaults)
    p.update({k: v for k, v in r.items() if k in accepted})
    return name, p
