"""Long histories of real environments for Trace_History (C08-C10)."""
from __future__ import annotations

import json
import os
import random

from harness import boot  # noqa: F401
from harness import config, proj
from harness.tlc import run_many


def make_history(path_or_data, seed, nsteps, name=None, guided=True):
    """run a shipped configuration for nsteps with a partly goal-directed policy; returns the records"""
    from checks.c14 import RealDynamics

    data = config.load(path_or_data) if isinstance(path_or_data, str) else path_or_data
    cfg = config.spec_config(data)
    env = config.build_env(data)
    env.set_seed(seed)
    rng = random.Random(seed)
    env.reset()
    shape = env.state.grid.shape
    stochastic = any(c['name'] in ('move_obstacles', 'teleport') for c in cfg['comps'])
    guided = guided and shape.height * shape.width <= 49 and not stochastic   # planning over random outcomes is too slow
    dyn = RealDynamics(cfg['comps'], cfg['term'], config.goal_kind(cfg)) if guided else None
    recs = [{'id': -1, 'comps': cfg['comps'], 'config': name or ''}]
    plan = []
    t = 0
    since_plan = 0
    while t < nsteps:
        if guided and not plan and since_plan <= 0:
            p = dyn.search(proj.state_to_json(env.state), max_states=2500)
            plan = list(p) if p else []
            since_plan = 10
        since_plan -= 1
        if plan and rng.random() < 0.85:
            a = plan.pop(0)
        else:
            a = rng.choice(env.action_space.actions).name
            plan = []
        from gym_gridverse.action import Action
        st = proj.state_to_json(env.state)
        r, d = env.step(Action[a])
        nxt = proj.state_to_json(env.state)
        last = t == nsteps - 1
        reset = bool(d) and not last
        recs.append({'id': t, 'st': st, 'a': a, 'next': nxt, 'reset': reset, 'r': float(r), 'd': bool(d), 'rtype': 'float' if isinstance(r, float) else type(r).__name__, 'dtype': 'bool' if isinstance(d, (bool, __import__('numpy').bool_)) else type(d).__name__})
        if reset:
            env.reset()
            plan = []
            since_plan = 0
        t += 1
    return recs


def _worker(args):
    path, src, seed, nsteps, name = args
    recs = make_history(src, seed, nsteps, name=name)
    with open(path, 'w') as f:
        for r in recs:
            f.write(json.dumps(r, separators=(',', ':')) + '\n')
    episodes = sum(1 for r in recs[1:] if r['reset'])
    opened = sum(1 for r in recs[1:] if r['a'] == 'ACTUATE' and r['st'] != r['next'])
    changed = sum(1 for r in recs[1:] if r['st'] != r['next'])
    return len(recs) - 1, episodes, opened, changed


def run_histories(workdir, items, nsteps):
    """items: list of (name, path or data, seed); returns (paths, stats)"""
    import multiprocessing as mp

    os.makedirs(workdir, exist_ok=True)
    args = []
    for k, (name, src, seed) in enumerate(items):
        args.append((os.path.join(workdir, f'hist_{k:03d}.ndjson'), src, seed, nsteps, name))
    with mp.Pool(16) as pool:
        stats = pool.map(_worker, args)
    return [a[0] for a in args], stats


def validate(paths, parallel=16):
    results = run_many([dict(module='Trace_History', env={'TRACE_FILE': p}, workers=1, timeout=3600, heap='4g') for p in paths], parallel=parallel)
    out = []
    for p, res in zip(paths, results):
        d = res.find('DONE')
        if not d:
            raise RuntimeError(f'TLC did not finish {p}:\n{res.raw[-2000:]}')
        out.append((p, res, [(t[1], sorted(t[2]['set'])) for t in res.find('BAD')]))
    return out


def to_step_records(recs, data, want, rid0=0):
    """Trace_Step records (with the configured reward / termination lists) from a history"""
    cfg = config.spec_config(data)
    out = []
    g = recs[1]['st']['grid']
    space = {'shape': [len(g), len(g[0])], 'types': cfg['state_space']['types'], 'colors': [c for c in cfg['state_space']['colors'] if c != 'NONE']}
    for r in recs[1:]:
        out.append({'id': rid0 + r['id'], 'want': want, 'fam': '', 'fi': -1, 'fsize': -1, 'k': -1, 'space': space, 'comps': cfg['comps'],
                    'rew': [cfg['rew']], 'term': [cfg['term']], 'st': r['st'],
                    'acts': [{'a': r['a'], 'outcome': 'ok', 'full': False, 'same': False, 'support': [r['next']], 'r': [proj.milli(r['r'])],
                              'rtype': [r['rtype']], 'rfinite': [True], 'rexact': [proj.is_milli_exact(r['r'])], 'done': [r['d']], 'dtype': [r['dtype']]}],
                    'mutated': False})
    return out
