"""Bootstrap: make the code under test importable from the working tree.

Must be imported before gym_gridverse.  Honours VERIF_REPO (default /repo).
"""
import os
import sys
import types
import warnings

warnings.filterwarnings('ignore')

REPO = os.environ.get('VERIF_REPO', '/repo')
VERIF = os.path.dirname(os.path.dirname(os.path.abspath(__file__)))

if VERIF not in sys.path:
    sys.path.insert(0, VERIF)


def _install_yaml():
    try:
        import yaml as _y  # noqa

        if hasattr(_y, 'safe_load'):
            return
    except Exception:
        pass
    from harness import miniyaml

    mod = types.ModuleType('yaml')
    mod.safe_load = miniyaml.safe_load
    mod.load = miniyaml.safe_load
    mod.YAMLError = miniyaml.YAMLError
    mod.__gv_shim__ = True
    sys.modules['yaml'] = mod


_install_yaml()
# the repository must come first so that the working tree is what is tested
sys.path = [p for p in sys.path if os.path.abspath(p or '.') != os.path.abspath(REPO)]
sys.path.insert(0, REPO)

# silence gym's banner
import contextlib  # noqa: E402
import io  # noqa: E402

with contextlib.redirect_stderr(io.StringIO()), contextlib.redirect_stdout(io.StringIO()):
    import gym_gridverse  # noqa: F401,E402  (pulls pkg_resources -> more_itertools)
    import gym_gridverse.gym  # noqa: F401,E402

assert os.path.abspath(gym_gridverse.__file__).startswith(os.path.abspath(REPO)), (
    gym_gridverse.__file__,
    REPO,
)
