"""A small YAML loader for the subset used by gym-gridverse's shipped files.

PyYAML is not installed in /venv and, with /repo on sys.path, ``import yaml``
resolves to the namespace package /repo/yaml (the directory of configuration
files).  The harness registers this module as ``yaml`` before importing
gym_gridverse.  Supported: block mappings, block sequences (items may be
mappings), nested flow sequences, plain scalars (int, float, bool, null,
strings, quoted strings), comments and blank lines.  Anything else raises
``YAMLError`` so that an unsupported construct can never be silently misread.
"""
from __future__ import annotations

import re
from typing import Any, List, Tuple


class YAMLError(Exception):
    pass


_INT = re.compile(r'^[-+]?[0-9]+$')
_FLOAT = re.compile(r'^[-+]?(\.[0-9]+|[0-9]+(\.[0-9]*)?)([eE][-+]?[0-9]+)?$')


def _scalar(tok: str) -> Any:
    tok = tok.strip()
    if tok == '' or tok in ('~', 'null', 'Null', 'NULL'):
        return None
    if (tok[0] == tok[-1]) and tok[0] in '"\'' and len(tok) >= 2:
        return tok[1:-1]
    if tok in ('true', 'True', 'TRUE'):
        return True
    if tok in ('false', 'False', 'FALSE'):
        return False
    if _INT.match(tok):
        return int(tok)
    if _FLOAT.match(tok) and any(ch in tok for ch in '.eE'):
        return float(tok)
    if any(ch in tok for ch in '{}&*!|>%@`'):
        raise YAMLError(f'unsupported scalar {tok!r}')
    return tok


def _flow(text: str, i: int = 0) -> Tuple[Any, int]:
    """parse a flow sequence starting at text[i] == '['"""
    assert text[i] == '['
    i += 1
    out: List[Any] = []
    tok = ''
    expecting = True
    while i < len(text):
        ch = text[i]
        if ch == '[':
            if tok.strip():
                raise YAMLError('bad flow sequence')
            val, i = _flow(text, i)
            out.append(val)
            expecting = False
            continue
        if ch == ',' or ch == ']':
            if tok.strip():
                out.append(_scalar(tok))
            elif expecting and ch == ',':
                raise YAMLError('empty flow entry')
            tok = ''
            expecting = ch == ','
            i += 1
            if ch == ']':
                return out, i
            continue
        if ch == '{':
            raise YAMLError('flow mappings unsupported')
        tok += ch
        i += 1
    raise YAMLError('unterminated flow sequence')


def _value(text: str) -> Any:
    text = text.strip()
    if text.startswith('['):
        val, j = _flow(text, 0)
        if text[j:].strip():
            raise YAMLError(f'trailing text after flow sequence: {text!r}')
        return val
    return _scalar(text)


def _strip_comment(line: str) -> str:
    out = ''
    quote = None
    for k, ch in enumerate(line):
        if quote:
            if ch == quote:
                quote = None
        elif ch in '"\'':
            quote = ch
        elif ch == '#' and (k == 0 or line[k - 1] in ' \t'):
            break
        out += ch
    return out.rstrip()


_KEY = re.compile(r'^([A-Za-z_][A-Za-z0-9_\-:.]*)\s*:(\s+(.*)|)$')


def _parse_block(lines: List[Tuple[int, str]], k: int, indent: int):
    """parse a block node whose first line is lines[k] at column `indent`"""
    if lines[k][1].startswith('- ') or lines[k][1] == '-':
        seq = []
        while k < len(lines) and lines[k][0] == indent and (
            lines[k][1].startswith('- ') or lines[k][1] == '-'
        ):
            body = lines[k][1][1:]
            pad = len(body) - len(body.lstrip())
            body = body.strip()
            item_indent = indent + 1 + pad
            if body == '':
                k += 1
                if k >= len(lines) or lines[k][0] <= indent:
                    seq.append(None)
                else:
                    val, k = _parse_block(lines, k, lines[k][0])
                    seq.append(val)
            elif _KEY.match(body) and not body.startswith('['):
                # mapping item starting on the dash line
                sub = [(item_indent, body)]
                k += 1
                while k < len(lines) and lines[k][0] >= item_indent:
                    sub.append(lines[k])
                    k += 1
                val, used = _parse_block(sub, 0, item_indent)
                if used != len(sub):
                    raise YAMLError('bad indentation in sequence item')
                seq.append(val)
            else:
                seq.append(_value(body))
                k += 1
        return seq, k
    mapping = {}
    while k < len(lines) and lines[k][0] == indent:
        m = _KEY.match(lines[k][1])
        if not m:
            raise YAMLError(f'cannot parse line {lines[k][1]!r}')
        key, rest = m.group(1), (m.group(3) or '').strip()
        if key in mapping:
            raise YAMLError(f'duplicate key {key!r}')
        if rest:
            mapping[key] = _value(rest)
            k += 1
        else:
            k += 1
            if k < len(lines) and lines[k][0] > indent:
                mapping[key], k = _parse_block(lines, k, lines[k][0])
            elif (
                k < len(lines)
                and lines[k][0] == indent
                and lines[k][1].startswith('- ')
            ):
                # sequences may sit at the same indentation as their key
                mapping[key], k = _parse_block(lines, k, indent)
            else:
                mapping[key] = None
    if k < len(lines) and lines[k][0] > indent:
        raise YAMLError('unexpected indentation')
    return mapping, k


def safe_load(stream) -> Any:
    text = stream if isinstance(stream, str) else stream.read()
    lines: List[Tuple[int, str]] = []
    for raw in text.split('\n'):
        if '\t' in raw[: len(raw) - len(raw.lstrip())]:
            raise YAMLError('tabs in indentation')
        line = _strip_comment(raw)
        if not line.strip() or line.strip() == '---':
            continue
        lines.append((len(line) - len(line.lstrip()), line.strip()))
    if not lines:
        return None
    if len(lines) == 1 and not _KEY.match(lines[0][1]) and not lines[0][1].startswith('-'):
        return _value(lines[0][1])
    val, k = _parse_block(lines, 0, lines[0][0])
    if k != len(lines):
        raise YAMLError('trailing content')
    return val


load = safe_load
