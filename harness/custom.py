"""A user-defined holdable grid object ("Gem"), registered after the Coin of examples/coin_env.py so that the
registration order (= type_index) is the specification's TypeSeq: ..., "Coin", "Gem".

Why: `holdable` is an attribute of object classes, Key is the only built-in holdable one, and the dynamics must treat
every holdable object alike (GVObjects.Holdable); a family with a second holdable type separates "holdable" from "is a Key"."""
import os
import sys

from harness import boot

sys.path.insert(0, os.path.join(boot.REPO, 'examples'))
import coin_env  # noqa: E402,F401  (registers Coin first)

from gym_gridverse.grid_object import Color, GridObject  # noqa: E402


class Gem(GridObject):
    state_index = 0
    color = Color.NONE
    blocks_movement = False
    blocks_vision = False
    holdable = True

    @classmethod
    def can_be_represented_in_state(cls) -> bool:
        return True

    @classmethod
    def num_states(cls) -> int:
        return 1

    def __repr__(self):
        return 'Gem()'
