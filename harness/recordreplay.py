"""Behaviours of the GVRecording machine replayed on recording.py / utils/space_builders.py.

imageio and pyglet are not installed in this sandbox: `imageio.v2` and `gym_gridverse.rendering` are replaced by
recorders (harness side only), so that the logic of recording.py itself - Data / DataBuilder, generate_images, the
record dispatcher - runs as shipped."""
from __future__ import annotations

import os
import sys
import types

from harness import boot  # noqa: F401
from harness.tlc import run_tlc, tla_set, write_cfg

WRITES = []


class _Viewer:
    instances = 0
    closed = 0

    def __init__(self, shape, **kwargs):
        _Viewer.instances += 1
        self.hud = False

    def flip_hud(self):
        self.hud = not self.hud

    def render(self, frame, return_rgb_array=False, **hud):
        return {'frame': frame, 'hud_on': self.hud, 'rgb': return_rgb_array, **hud}

    def close(self):
        _Viewer.closed += 1


def _install_stubs():
    if 'imageio.v2' not in sys.modules:
        try:
            import imageio.v2  # noqa: F401
        except Exception:
            m, v2 = types.ModuleType('imageio'), types.ModuleType('imageio.v2')
            m.v2 = v2
            sys.modules['imageio'], sys.modules['imageio.v2'] = m, v2
    if 'gym_gridverse.rendering' not in sys.modules:
        try:
            import gym_gridverse.rendering  # noqa: F401
        except Exception:
            r = types.ModuleType('gym_gridverse.rendering')
            r.GridVerseViewer = _Viewer
            sys.modules['gym_gridverse.rendering'] = r
    import gym_gridverse.recording as rec

    rec.GridVerseViewer = _Viewer
    rec.iio.imwrite = lambda filename, image, **kw: WRITES.append(('imwrite', filename, 1, kw))
    rec.iio.mimwrite = lambda filename, images, **kw: WRITES.append(('mimwrite', filename, len(images), kw))
    return rec


def behaviours(ctx, depth, stateless):
    cfg = write_cfg(os.path.join(ctx.work, f'GVRecording_{int(stateless)}.cfg'),
                    constants={'Depth': depth, 'RNums': ('<-', 'RNumsDefault'), 'DExp': 1, 'Stateless': 'TRUE' if stateless else 'FALSE'},
                    invariants=['BuilderShape', 'BuildAfterAppend0', 'DoneOnlyLast', 'Emit'])
    res = run_tlc('GVRecording', cfg=cfg, workers=4, timeout=1800)
    ctx.add_tlc(res, f'GVRecording: all {"stateless" if stateless else "builder"} operation sequences of length {depth}')
    return [t[1] for t in res.find('REC')]


def replay(ctx, behs, dexp=1):
    """-> (operations, mismatches); every mismatch is reported through ctx.drift"""
    import contextlib
    import io

    import numpy as np

    rec = _install_stubs()
    from gym_gridverse.action import Action
    from gym_gridverse.agent import Agent
    from gym_gridverse.geometry import Orientation, Position, Shape
    from gym_gridverse.grid import Grid
    from gym_gridverse.grid_object import Color, Exit, Floor, Wall
    from gym_gridverse.spaces import ObservationSpace, StateSpace
    from gym_gridverse.state import State
    from gym_gridverse.utils.space_builders import ObservationSpaceBuilder, StateSpaceBuilder

    discount = 1.0 / 2 ** dexp
    actions = list(Action)
    values = {'shape': {1: Shape(2, 3), 2: Shape(3, 2)}, 'types': {1: [Floor, Wall], 2: [Floor, Exit, Wall]},
              'colors': {1: [Color.NONE], 2: [Color.NONE, Color.RED]}}

    def frame(k):
        return State(Grid.from_shape((2, 3)), Agent(Position(k % 2, k % 3), Orientation.F))

    n = mism = 0
    for beh in behs:
        db = rec.DataBuilder(discount)
        sb = {'state': StateSpaceBuilder(), 'observation': ObservationSpaceBuilder()}
        nf = 0
        for (op, arg, outcome, extra) in beh:
            n += 1
            got, val = 'ok', 0
            try:
                if op == 'append0':
                    db.append0(frame(nf))
                    nf += 1
                elif op == 'append':
                    db.append(frame(nf), actions[nf % len(actions)], arg / 8.0)
                    nf += 1
                elif op == 'build':
                    data = db.build()
                    before = _Viewer.closed
                    imgs = list(rec.generate_images(data))
                    val = []
                    for k, im in enumerate(imgs):
                        ok_frame = im['frame'] is data.frames[k] and im['hud_on'] and im['rgb']
                        if im['action'] is None:
                            val.append((False, 0, 0, bool(im['done']) if im['done'] is not None else False) if ok_frame and im['reward'] is None and im['ret'] is None else 'bad')
                        else:
                            g = im['ret'] * 8 * 2 ** (dexp * (k - 1))
                            ok = ok_frame and im['action'] is data.actions[k - 1] and abs(g - round(g)) < 1e-9
                            val.append((True, int(round(im['reward'] * 8)), int(round(g)), bool(im['done'])) if ok else 'bad')
                    if _Viewer.closed != before + 1 and len(imgs) > 0:
                        val.append('viewer not closed')
                    if not (data.is_state_data and not data.is_observation_data and not data.is_image_data):
                        val.append('frame kind flags')
                elif op == 'data':
                    f, a, r = arg
                    d = rec.Data([np.zeros((2, 2)) for _ in range(f)], [actions[0]] * a, [0.0] * r, discount)
                    if not d.is_image_data or d.is_state_data:
                        got = 'frame kind flags'
                elif op == 'record':
                    mode, has_name, has_names, nimg, dur = arg
                    del WRITES[:]
                    kw = {}
                    if has_name:
                        kw['filename'] = os.path.join(ctx.work, 'x.out')
                    if has_names:
                        kw['filenames'] = [os.path.join(ctx.work, f'x{k}.png') for k in range(nimg)]
                    if dur:
                        kw['duration'] = float(dur)
                    with contextlib.redirect_stdout(io.StringIO()):
                        rec.record(mode, [np.zeros((2, 2, 3), dtype=np.uint8)] * nimg, **kw)
                    val = _summarise_writes(nimg)
                elif op.startswith('set_'):
                    k = op[4:]
                    getattr(sb['state'], {'shape': 'set_grid_shape', 'types': 'set_object_types', 'colors': 'set_colors'}[k])(values[k][arg])
                    getattr(sb['observation'], {'shape': 'set_grid_shape', 'types': 'set_object_types', 'colors': 'set_colors'}[k])(values[k][arg])
                elif op == 'build_space':
                    sp = sb[arg].build()
                    want_cls = StateSpace if arg == 'state' else ObservationSpace
                    inv = {k: {id(v): i for i, v in d.items()} for k, d in values.items()}
                    val = (1 if sp.grid_shape == values['shape'][1] else 2,
                           1 if list(sp.object_types) == values['types'][1] else 2,
                           1 if list(sp.colors) == values['colors'][1] else 2)
                    if type(sp) is not want_cls:
                        val = 'wrong class'
                    del inv
            except Exception as e:
                got = type(e).__name__
            want = _norm(extra) if outcome == 'ok' and op in ('build', 'record', 'build_space') else None
            if got != outcome or (want is not None and _norm(val) != want):
                mism += 1
                ctx.drift(f'recording behaviour {[b[0] for b in beh]}: {op}({arg}) -> {got}/{val}, the GVRecording machine says {outcome}/{extra}')
                break
    return n, mism


def _summarise_writes(nimg):
    if not WRITES:
        return ('nothing', '', '', 0, 1)
    if all(w[0] == 'imwrite' for w in WRITES):
        return ('imwrite', '', 'count', len(WRITES), 1)
    if len(WRITES) != 1:
        return 'several writes'
    _, _, n, kw = WRITES[0]
    if n != nimg or not kw.get('format'):
        return 'wrong images'
    if 'duration' in kw:
        return ('mimwrite', kw['format'], 'duration', kw['duration'] * nimg, nimg) if kw.get('fps') == 2.0 else 'fps changed'
    fps = kw.get('fps')
    if fps == 2.0:
        return ('mimwrite', kw['format'], 'fps', 2, 1)
    return ('mimwrite', kw['format'], 'fps', nimg, nimg / fps)


def _norm(v):
    """numbers compared as rationals num/den where the machine gives <<.., num, den>>"""
    if isinstance(v, (list, tuple)) and len(v) == 5 and isinstance(v[0], str):
        num, den = float(v[3]), float(v[4])
        return (v[0], v[1], v[2], round(num / den, 9) if den else None)
    if isinstance(v, (list, tuple)):
        return tuple(_norm(x) for x in v)
    return v
