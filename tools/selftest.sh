#!/bin/sh
# Self-test of the machinery against the stored changes:
#   seeded/<id>[_rN]/patch.diff      must be DETECTED by ./check <id> (exit 1 with a VIOLATION line)
#   mutants/benign/<name>.diff       must stay QUIET for the checks listed in mutants/benign/CHECKS
# Every run works on a scratch worktree of /repo HEAD (VERIF_REPO); /repo and the committed evidence are not touched.
# usage: tools/selftest.sh [pattern]      (pattern filters seed directory names, e.g. C1 or _r3)
cd "$(dirname "$0")/.."
pat="${1:-}"
for d in seeded/*/; do
  name=$(basename "$d")
  case "$name" in *"$pat"*) ;; *) continue;; esac
  id=$(echo "$name" | cut -d_ -f1)
  out=$(tools/with_patch.sh "$d/patch.diff" ./check "$id" --tier quick 2>&1)
  if echo "$out" | grep -q "^VIOLATION property=$id"; then echo "seed $name: detected"
  elif echo "$out" | grep -q "machinery failure"; then echo "seed $name: MACHINERY FAILURE"
  else echo "seed $name: MISSED"; fi
done
if [ -z "$pat" ] || [ "$pat" = "benign" ]; then
  while read -r name checks; do
    [ -z "$name" ] && continue
    for id in $checks; do
      out=$(tools/with_patch.sh "mutants/benign/$name.diff" ./check "$id" --tier quick 2>&1)
      if echo "$out" | grep -q "^VIOLATION"; then echo "benign $name on $id: ALARM"
      elif echo "$out" | grep -q "machinery failure"; then echo "benign $name on $id: MACHINERY FAILURE"
      else echo "benign $name on $id: quiet"; fi
    done
  done < mutants/benign/CHECKS
fi
