#!/bin/sh
# Self-test of the machinery against the stored changes:
#   seeded/<id>[_rN]/patch.diff      must be DETECTED by ./check <id> (exit 1 with a VIOLATION line)
#   mutants/benign/<name>.diff       must stay QUIET for the checks listed in mutants/benign/CHECKS
# Every run works on a scratch worktree of /repo HEAD (VERIF_REPO); /repo and the committed evidence are not touched.
# usage: tools/selftest.sh [pattern] [jobs]   (pattern filters seed directory names, e.g. C1 or _r3, "" for all;
#                                              jobs = how many checks run side by side, default 3)
cd "$(dirname "$0")/.."
pat="${1:-}"
jobs="${2:-3}"
one_seed() {
  d="$1"; name=$(basename "$d"); id=$(echo "$name" | cut -d_ -f1)
  out=$(tools/with_patch.sh "$d/patch.diff" ./check "$id" --tier quick 2>&1)
  if echo "$out" | grep -q "^VIOLATION property=$id"; then echo "seed $name: detected"
  elif echo "$out" | grep -q "machinery failure"; then echo "seed $name: MACHINERY FAILURE"
  else echo "seed $name: MISSED"; fi
}
one_benign() {
  name="$1"; id="$2"
  out=$(tools/with_patch.sh "mutants/benign/$name.diff" ./check "$id" --tier quick 2>&1)
  if echo "$out" | grep -q "^VIOLATION"; then echo "benign $name on $id: ALARM"
  elif echo "$out" | grep -q "machinery failure"; then echo "benign $name on $id: MACHINERY FAILURE"
  else echo "benign $name on $id: quiet"; fi
}
if [ "$1" = "--one-seed" ]; then one_seed "$2"; exit 0; fi
if [ "$1" = "--one-benign" ]; then one_benign "$2" "$3"; exit 0; fi
{
  for d in seeded/*/; do
    name=$(basename "$d")
    case "$name" in *"$pat"*) echo "--one-seed $d";; esac
  done
  if [ -z "$pat" ] || [ "$pat" = "benign" ]; then
    while read -r name checks; do
      [ -z "$name" ] && continue
      for id in $checks; do echo "--one-benign $name $id"; done
    done < mutants/benign/CHECKS
  fi
} | xargs -P "$jobs" -L 1 tools/selftest.sh
