#!/bin/sh
# usage: eval_seed.sh <seed dir containing patch.diff and demo.py> <check id> [tier]
# 1. confirms in a fresh scratch worktree that the patch applies, the baseline tests still pass (1017),
#    the demonstration fails with the patch and passes without it;
# 2. runs ./check <id> against the patched worktree and reports whether it raises a violation.
set -u
seed=$(realpath "$1"); id="$2"; tier="${3:-quick}"
dir=$(mktemp -d /tmp/gvseed.XXXXXX); rmdir "$dir"
git -C /repo worktree add -q --detach "$dir" HEAD
trap 'git -C /repo worktree remove --force "$dir" >/dev/null 2>&1; rm -rf "$dir"' EXIT
cd "$dir"
mkdir -p _seed; cp "$seed"/*.py _seed/
PYTHONPATH="$dir" /venv/bin/python -W ignore _seed/demo.py >/dev/null 2>&1; echo "demo_without_patch_exit=$?"
git apply "$seed/patch.diff" || { echo "patch_applies=no"; exit 3; }
echo "patch_applies=yes"
PYTHONPATH="$dir" /venv/bin/python -W ignore _seed/demo.py >/dev/null 2>&1; echo "demo_with_patch_exit=$?"
/venv/bin/python -m pytest -q -p no:cacheprovider --timeout=900 --continue-on-collection-errors 2>&1 | tail -1 | sed 's/^/tests: /'
cd /verif
VERIF_REPO="$dir" VERIF_WORK="$dir/.verif_work" ./check "$id" --tier "$tier" > "$dir/check.log" 2>&1; rc=$?
echo "check_exit=$rc"
grep -m3 -E "^VIOLATION|machinery|KNOWN-FINDING" "$dir/check.log" | cut -c1-400
tail -1 "$dir/check.log" | cut -c1-300
