#!/bin/sh
# usage: with_patch.sh <patch.diff> <command...>
# runs <command> with VERIF_REPO pointing at a scratch worktree of /repo HEAD with the patch applied
set -e
patch=$(realpath "$1"); shift
dir=$(mktemp -d /tmp/gvmut.XXXXXX)
rmdir "$dir"
git -C /repo worktree add -q --detach "$dir" HEAD
trap 'git -C /repo worktree remove --force "$dir" >/dev/null 2>&1; rm -rf "$dir"' EXIT
git -C "$dir" apply "$patch"
VERIF_REPO="$dir" VERIF_WORK="$dir/.verif_work" "$@" || echo "exit=$?"
