#!/usr/bin/env python3
"""Regenerate /verif/MANIFEST.json from the table below (run from /verif)."""
import json
import os

VERIF = os.path.dirname(os.path.dirname(os.path.abspath(__file__)))

# property -> (ready, technique, level text, level note, design ref)
CHECKS = {
    'C01': dict(ready=True, technique='TLC trace validation of step/observation/membership records against GVTransitions/GVState + TLC model checking of closure on small scopes',
                text='Every state of the small-scope families (all fillings of 1x2/2x1 grids from a 15-kind alphabet, 3x3 with few non-floor cells, every pose and held item) x every action x compositions is run through GridWorld.functional_step with debug checks on; TLC checks outcome, closure, reward/flag types on every record and model-checks closure of the specification; membership predicates compared on conforming states and single-fault mutants.',
                note='numpy generator semantics; small-scope hypothesis for grid size; documented component preconditions'),
    'C02': dict(ready=True, technique='TLC enumeration of all interleavings (GVMultiEnv, with isolation action properties) replayed on real environments + digest memo across schedules and processes',
                text='TLC enumerates every interleaving (depth 5 quick / 6 thorough, 2 environments; simulated longer schedules with 3) of environment operations, library-level draws, global numpy/python generator use and debug toggles; each schedule is executed on real environments, every result is memoised under (configuration, seed, own history) and must agree wherever it recurs, the three global generators are compared around every seeded operation, canonical runs of all shipped configurations are repeated in interpreter processes with different PYTHONHASHSEED, and every stochastic component is audited with an explicit recording generator.',
                note='trusted: numpy generator determinism; digests are SHA-256 prefixes of the canonical JSON projection'),
    'C03': dict(ready=True, technique='TLC enumeration of all operation sequences of the GVHeap model (AliasFree, OnlyMutateChanges) replayed on real State objects with identity/value snapshots; GVCache behaviours replayed on the real lru caches + TLAPS proof of AliasFree for every bound (GVHeapProofs) + answers pooled across histories and worker processes',
                text='Every sequence (length 4 quick / 5 thorough, up to 3 handles) of functional step, copy, caller mutation, observation/reward/termination questions and repeated questions is executed on real states (boxes with nested content, doors, held items; several compositions; directly and through GridWorld); after every operation all live handles are re-projected and compared by value and by the identity of every mutable component; LRU hit/miss/eviction histories are replayed on the real shortest-path and ray caches. Observations handed out are retained and re-projected after every later operation (only the caller mutating the asked-about state may change them); the same question must get the same answer in every behaviour of every worker process.',
                note='identity = id() of grid container, row lists, every GridObject incl. box contents, Agent and Transform while all handles are alive'),
    'C04': dict(ready=True, technique='TLC enumeration of all call sequences of the GVEnv machine (with NotStale etc. as invariants) replayed on real GridWorld/OuterEnv with counting wrappers against a functional mirror',
                text='Every sequence of reset / step / invalid step / observation and state reads / outer reads up to length 5 (6 thorough), plus interleavings with the functional interface and long simulated behaviours on all shipped configurations, is executed on real environments whose five components are wrapped in counters and whose generator records draws; after each operation outcome class, call counters, generator use, and equality with a second environment driven purely through the functional interface are compared with the machine.',
                note='the machine abstracts states to identities; values are compared against the functional mirror, which C02 shows to be reproducible'),
    'C05': dict(ready=True, technique='TLC model checking of pipeline = pointwise (MC_Obs) + TLC trace validation of observation records (Trace_Obs)',
                text='MC_Obs proves on the specification that slice/rotate/mask equals the pointwise statement for all labelled grids up to 3x3 (4x4 thorough), all poses, all areas with bounds in -2..2 (-3..3); the real observation functions are run on the same exhaustive family and on random grids up to 13x13 and every record is validated cell by cell by TLC.',
                note='trusted: the JSON projection of states/observations; ray fans are taken from the implementation (validated by C19); partially_occluded/raytracing only on areas in their documented domain'),
    'C06': dict(ready=True, technique='TLC over all opacity patterns of small views (VisTable, code masks and spec masks) + TLC-validated metamorphic pairs (Trace_Obs) + C06.self / C06.chain evaluated by TLC on observations through views up to 15x15',
                text='For every opacity pattern of views up to 4x3/3x4 (quick) and 3x5/5x3/4x4 (thorough) TLC evaluates SelfVisible, ChainConnected, Monotone and NonInterfering on the masks returned by the real visibility functions and on the specification; metamorphic pairs and stochastic bounds are validated on full observations up to 9x9/12x12 worlds. Views beyond the exhaustive tables (7x7 .. 15x15) are judged on the observation itself: the own cell of the agent is shown and every shown cell hangs on a chain of shown transparent cells.',
                note='adjacency read as 8-neighbourhood; the measure-zero event random()==0.0 is not explored; patterns use Wall/Floor as opaque/transparent representatives (the functions read only blocks_vision)'),
    'C07': dict(ready=True, technique='TLC model checking of view invariance under RotWorld (MC_Obs) + TLC-validated rotated-world quadruples (Trace_Obs)',
                text='TLC proves view invariance under the four world rotations on the specification for all labelled grids up to 3x3 (4x4), poses and areas; the real code is run on a world and its three rotations (rotation re-checked by TLC against the specification) for exhaustive small non-square cases and random cases, and the observations must be equal.',
                note='the harness rotates worlds with its own index arithmetic, verified per record by TLC against GVGeometry.RotGrid'),
    'C08': dict(ready=True, technique='TLC model checking of KinematicsRule (MC_Step) + Apalache step lemmas for every content of a 5x5/7x9 grid (GVSym) + TLC trace validation of exhaustive step records (Trace_Step) and of long histories with history variables (Trace_History) + walks on live state objects',
                text='Exhaustive small scopes: every filling of 1x1/1x2/2x1 grids from a 15-kind alphabet and 3x3 grids with <=1 (quick) / <=2 (thorough) non-floor cells, every pose, held item, action and several compositions; the specification is model-checked against the declarative rule and every outcome of the real code is validated against the rule by TLC. Walks on live state objects (every state questioned as the object the previous call returned) over mixed small worlds are judged by the same rule.',
                note='small-scope hypothesis for grid size (move/turn inspect only the target cell); reachable-state graphs of shipped configurations are covered by C14/C04 runs'),
    'C09': dict(ready=True, technique='TLC model checking of ConservationRule (MC_Step) + Apalache locality/exchange lemmas (GVSym) + TLC trace validation of exhaustive step records incl. all random outcomes and of long histories (inventory of the episode conserved) + a user-defined holdable object (Gem) family + walks on live state objects',
                text='Bag of objects (type, colour, box content) incl. held item, scenery immobility and the pick/drop/swap case analysis are checked on every outcome (EnumeratingRNG) of the real code over the exhaustive small families and on the specification. A second holdable type (user-defined Gem) separates holdable from is-a-Key; walks on live state objects are judged by the same rule.',
                note='object identity excludes door status (C10); EnumeratingRNG assumes numpy choice(n) has full support'),
    'C10': dict(ready=True, technique='TLC model checking of DoorRule (MC_Step) + Apalache DoorLemma (GVSym) + TLC trace validation of the complete door/box family and of guided key-door histories with the usedKey history variable (Trace_History) + walks on live state objects',
                text='Complete family door status x colours x held items x every relative pose (front, sides, behind, diagonal, under, out of reach, outside the grid) x 8 actions x compositions through the real code, each outcome validated by TLC against the iff-rule; the specification is model-checked against the same rule. Walks on live state objects (boxes releasing obstacles / keys / telepods) are judged by the same rule.',
                note='quick tier uses 2 colours + NONE, thorough all 4'),
    'C11': dict(ready=True, technique='exact support by EnumeratingRNG compared by TLC with the successor sets of the specification (Trace_Step) + MC_Step + walks on live state objects (order-free chain clause)',
                text='For every layout of the small families the exact set of outcomes of move_obstacles / teleport (all resolutions of every random choice) must satisfy ObstacleRule/TeleportRule and contain every free neighbour / partner; larger random layouts are checked for membership over seeds. Walks on live state objects (an obstacle released from a box must take its turns) are judged by the order-free chain clause.',
                note='numpy choice(n) has full support; processing order of obstacles may be any fixed order'),
    'C12': dict(ready=True, technique='TLC trace validation of reward/termination evaluations (Trace_Reward) against GVRewards + agreement invariants in MC_Step',
                text='Every registered reward and termination component, with default and random decimal parameters and in composites, is evaluated by the real code on triples (real successors and arbitrary next states) and compared exactly (milli-units) with the specification; agreement clauses are checked on the code values and model-checked on the specification. Distance components are instantiated for Exit, Key, Beacon and Door targets (a target may block movement itself) on random layouts up to 9x6 / 3x11 and serpentine mazes up to 11x8.',
                note='distance components only where their documented precondition holds; bump_into_wall only where the agent does not stand on a blocking cell or the action is a move'),
    'C13': dict(ready=True, technique='TLC trace validation of reset records against WellFormed/Honourable/MustAccept of GVReset (Trace_Reset), incl. all outputs via EnumeratingRNG for small shapes',
                text='All eight reset functions are called through the registry factory over shapes 1x1..8x8 (13x13 thorough), all flags, layouts (0..4)^2, counts and colour sets x seeds, and for small shapes on every resolution of their random choices; TLC checks every returned state against the declarative well-formedness predicate of its function and every refusal against the allowed error type and the documented domain.',
                note='a function may refuse parameters it could have honoured, except its documented domain (MustAccept); generative sets Init_<f> are used for drift only'),
    'C14': dict(ready=True, technique='TLC breadth-first search of the specification dynamics from all states of Init_<f>(p) and from logged initial states (MC_Win); plans replayed on the real step function',
                text='For small members of every reset family TLC searches from every state of the generative set; for all 21 shipped configurations from initial states produced by the real reset functions over seeds. Every plan found for a logged origin is replayed on the real transition and termination functions; an origin without a plan is re-searched on the real step function before it is reported and matched against the listed known finding (F8). Parameter sweeps draw their origins from the real reset functions (48 seeds per room layout in the quick tier, unequal rooms included).',
                note='random outcomes are part of the existential; search depth bounded (60/120 actions); memory_rooms small members use fixed colours/orientation'),
    'C15': dict(ready=True, technique='TLC model checking over all type/colour subsets (MC_Rep) + TLC trace validation of declared spaces and converted members (Trace_Rep)',
                text='MC_Rep checks on the specification that every encoding of every object of every space (all subsets of registered types x colour subsets x 3 encodings x state/observation) lies within the declared bounds; the real make_*_representation spaces (and the gym Dict/Box built from them) are compared with the specification and convert() of covering and random members, and of every state/observation along trajectories of all shipped configurations, is checked for shape, dtype kind, bounds and contains().',
                note='quick tier samples 150 spaces per kind plus all shipped ones (thorough: all); float entries compared as exact rationals'),
    'C16': dict(ready=True, technique='TLC model checking of injectivity / disjoint channels / consecutive compact values (MC_Rep) + TLC trace validation of per-member encodings and pairs (Trace_Rep)',
                text='On the specification: injectivity of the three encodings on all objects of all spaces, default = index triple, disjoint channel ranges for no-overlap, consecutive values from zero for compact. On the code: every converted array equals the positional encoding of the specification (agent marker exactly at the agent cell), and for pairs of members equal arrays <=> equal members <=> python ==, with equal hashes.',
                note='box content is not part of equality (as in the library); quick tier samples spaces'),
    'C17': dict(ready=True, technique='TLC enumeration of single corruptions with verdicts from the registry tables (GVConfig) applied to the real factory + TLC trace validation of shipped trajectories against the specification instantiated with the configuration + valid rewrites (permuted parameter order, from_visibility with nested visibility parameters) compared with the hand-assembled environment',
                text='All shipped files: identical packaged copies, id mapping, build twice, input unchanged, identical trajectories for two builds and for an environment assembled by hand from the registered functions with the parameters the specification table accepts; every step / observation / reset of those trajectories is validated by TLC against the specification instantiated with the configuration data. Every single corruption TLC enumerates (unknown names per slot, each parameter removed, unknown extra parameter, malformed shapes/layouts/colours/objects/actions, missing keys, empty lists) is applied to the real data and the outcome of factory_env_from_data compared with the verdict. Valid rewrites enumerated by GVConfig (reverse_params, wrap_visibility) must be accepted and behave like the hand-assembled environment, including on probes stepping onto every exit.',
                note='malformed areas are outside the statement; the coin example (custom components) is covered by build / repeatability only'),
    'C18': dict(ready=True, technique='TLAPS proofs over Int (GVGeometryProofs, 64 obligations) + TLC model checking (MC_Geom) + TLC trace validation of every geometry operator of the code (Trace_Geom) + limb-wise validation of the coordinate-linear operators on coordinates up to 2^83',
                text='The group, action, isometry, transform and area laws are proved with TLAPS for all integers on the specification; the finite-set statements and grid rotation laws are model-checked for small coordinates/shapes; every public operator of geometry.py, Grid rotation, get_next_position and get_manhattan_boundary is run on the exhaustive small domain and on random coordinates up to 2^29 and each result is compared by TLC with the specification operator. Coordinates beyond the 32-bit integers of TLC are cut into three signed limbs (base 2^29); linearity makes every limb an ordinary record.',
                note='proofs are about the specification; the code is bound to it by conformance (exhaustive small + random large), which is sound because the operators branch on the orientation only'),
    'C19': dict(ready=True, technique='TLC trace validation of logged rays (Trace_Rays, GVRays) + GVCache model behaviours replayed on the real lru caches + TLAPS proof that the memo machine always answers with the function value (GVCacheProofs)',
                text='Every ray of compute_rays_fancy, compute_rays and compute_ray (random directions) for all areas up to 5x5 (9x9 thorough) plus the shipped 7x7 and asymmetric areas and all origins is checked by TLC (start, containment, no repeats, 8-adjacency, ends on border, coverage); hit/miss/eviction histories generated from the GVCache model are replayed on the real cached function comparing answers and counters. Large and elongated areas (14x14 .. 20x20, 28x3, 3x32; thorough up to 26x26, 41x5) with corner / edge / centre origins are included.',
                note='the floating-point stepping is not modelled (postcondition check on logged rays)'),
    'C20': dict(ready=True, technique='TLC enumeration of all gym-layer call sequences of the GVEnv machine replayed on real GymEnvironment / GymStateWrapper; registered ids compared with direct construction',
                text='Every sequence of gym reset / step(i) / observation / state / representation switches (and of the state wrapper) up to length 5-6 is replayed on real adapters over a permuted 6-action space: the transition function must see actions[i], returned observations must be the representation of the post-step observation with the inner reward and flag, everything must lie in the advertised spaces, and switches must update them; all 21 registered ids (gym.make and spec factory) are run against the adapter built on their packaged file.',
                note='GymEnvironment.seed() cannot run under gym 0.26 (seeding.create_seed missing) and is outside the statement; seeding goes through inner_env.set_seed'),
}


def main():
    props = [json.loads(line)['id'] for line in open(os.path.join(VERIF, 'properties.jsonl'))]
    checks = []
    na = []
    for p in props:
        c = CHECKS[p]
        if c['ready']:
            checks.append({
                'property_id': p,
                'quick_cmd': f'./check {p} --tier quick',
                'thorough_cmd': f'./check {p} --tier thorough',
                'evidence_file': f'/verif/evidence/{p}.json',
                'replay_cmd_template': f'./check {p} --replay {{path}}',
                'engine': 'tlc-gridverse',
                'level_claimed': {'category': 'model_checking', 'text': c['text'], 'design_ref': f'DESIGN.md section 3, {p}'},
                'level_note': c['note'],
                'technique': c['technique'],
            })
        else:
            na.append({'property_id': p, 'reason': 'check under construction in this session (specification modules exist or are planned; see DESIGN.md section 3)'})
    m = {
        'version': 1,
        'setup_cmd': './setup.sh',
        'hooks': {
            'guard': 'GYM_GRIDVERSE_VERIF',
            'enable': 'no in-repo hooks: the harness injects recording wrappers / generators through public constructors and rng= parameters',
            'baseline_off_cmd': 'cd /repo && /venv/bin/python -m pytest -ra -q -p no:cacheprovider --timeout=900 --continue-on-collection-errors',
            'source_commits': [],
            'add_only': True,
        },
        'engines': [{
            'name': 'tlc-gridverse', 'path': '/verif/spec',
            'serves_properties': [c['property_id'] for c in checks],
            'kind_free_text': 'explicit TLA+ specification (spec/GV*.tla) checked with TLC: bounded model checking (MC_*.tla), trace validation of records produced by the real code (Trace_*.tla, VisTable.tla), and replay of TLC-generated behaviours into the real code',
        }],
        'checks': checks,
        'notes': 'Entry point ./check <id> --tier quick|thorough [--replay path]; honours VERIF_SEED, VERIF_TIER, VERIF_REPO. known_findings.json lists genuine defects (fixed or known).',
        'not_applicable': na,
    }
    with open(os.path.join(VERIF, 'MANIFEST.json'), 'w') as f:
        json.dump(m, f, indent=1)
    print('checks:', [c['property_id'] for c in checks])


if __name__ == '__main__':
    main()
