------------------------------- MODULE MC_Rays -------------------------------
(***************************************************************************)
(* Self-check of the ray predicates (they must not be vacuous): a correct  *)
(* straight-line fan is accepted; fans with a gap, a jump, a repeat, an    *)
(* early stop or a wrong start are rejected.  And: whenever FanOK holds,   *)
(* an unobstructed ray-traced view shows everything.                       *)
(***************************************************************************)
EXTENDS GVVisibility, TLC

A3 == <<<<0, 2>>, <<0, 2>>>>
O3 == <<2, 1>>
\* a hand-made fan from the bottom-centre cell of a 3x3 area
GoodFan ==
  << <<O3, <<1, 1>>, <<0, 1>>>>, <<O3, <<1, 0>>, <<0, 0>>>>, <<O3, <<1, 2>>, <<0, 2>>>>,
     <<O3, <<2, 0>>>>, <<O3, <<2, 2>>>>, <<O3, <<1, 1>>, <<0, 0>>>>, <<O3, <<1, 1>>, <<0, 2>>>> >>
Replace(fan, k, ray) == [fan EXCEPT ![k] = ray]
ASSUME FanOK(GoodFan, O3, A3)
ASSUME ~FanOK(Replace(GoodFan, 2, <<O3, <<0, 0>>>>), O3, A3)                 \* jump
ASSUME ~FanOK(Replace(GoodFan, 1, <<O3, <<1, 1>>>>), O3, A3)                 \* stops before the border
ASSUME ~FanOK(Replace(GoodFan, 1, <<O3, <<1, 1>>, <<2, 1>>, <<1, 1>>, <<0, 1>>>>), O3, A3) \* repeat
ASSUME ~FanOK(Replace(GoodFan, 4, <<<<2, 0>>>>), O3, A3)                     \* wrong start
ASSUME ~FanOK(Replace(GoodFan, 5, <<O3, <<2, 2>>, <<2, 3>>>>), O3, A3)       \* leaves the area
ASSUME ~FanOK(SubSeq(GoodFan, 1, 2) \o SubSeq(GoodFan, 4, 7), O3, A3)        \* coverage hole at <<1,2>>,<<0,2>> ... 
ASSUME RayFails(<<O3, <<0, 0>>>>, O3, A3) = {"jump"}

VARIABLE g
Floor3 == [i \in 1..3 |-> [j \in 1..3 |-> Floor]]
Init == g \in [1..3 -> [1..3 -> {Floor, Wall}]]
Next == UNCHANGED g
\* unobstructed: everything visible; in general the visible set obeys the C06 predicates
InvUnobstructed == g = Floor3 => Raytracing(g, GoodFan) = GPositions(g)
InvSelf == SelfVisible(Raytracing(g, GoodFan), O3)
InvChain == ChainConnected(g, Raytracing(g, GoodFan), O3)
=============================================================================
