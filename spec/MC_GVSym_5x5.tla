---------------------------- MODULE MC_GVSym_5x5 ----------------------------
(* Apalache instance of GVSym on a symbolic 5x5 grid: apalache-mc check --init=Init --inv=<lemma> --length=1 *)
EXTENDS Integers
H == 5
W == 5
VARIABLES
  \* @type: <<Int, Int>> -> Int;
  cell,
  \* @type: <<Int, Int>>;
  pos,
  \* @type: Int;
  ori,
  \* @type: Int;
  held,
  \* @type: Int;
  lastAction
INSTANCE GVSym
\* a deliberately false lemma: the checker must refute it (guards against a vacuous set-up)
FalseLemma == lastAction' = 6 => cell' = cell
=============================================================================
