INIT Init
NEXT Next
INVARIANT InvInside
INVARIANT InvPose
INVARIANT InvInjective
INVARIANT InvDefaultIsTriple
INVARIANT InvNoOverlap
INVARIANT InvCompact
CHECK_DEADLOCK FALSE
