INIT Init
NEXT Next
CONSTANTS
  H = 1
  W = 2
INVARIANT Link
INVARIANT SymInv
CONSTRAINT Depth1
CHECK_DEADLOCK FALSE
