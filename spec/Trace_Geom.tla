------------------------------ MODULE Trace_Geom ------------------------------
(***************************************************************************)
(* Trace validation of the geometry operators of the implementation (C18): *)
(* every record is (operator, arguments, result of the real code) and is   *)
(* compared with the specification's operator.                             *)
(***************************************************************************)
EXTENDS GVGeometry, Json, IOUtils, TLC

Recs == ndJsonDeserialize(IOEnv.TRACE_FILE)
VARIABLE i
vars == <<i>>
T(x) == [p |-> x.p, o |-> x.o]
ToSetOfSeq(s) == {s[k] : k \in DOMAIN s}

Expected(r) ==
  CASE r.op = "ori_mul" -> Mul(r.a, r.b)
    [] r.op = "ori_neg" -> Neg(r.a)
    [] r.op = "ori_value" -> OriEnumValue(r.a)
    [] r.op = "rot_pos" -> Rot(r.a, r.b)
    [] r.op = "rot_area" -> RotArea(r.a, r.b)
    [] r.op = "pos_add" -> PAdd(r.a, r.b)
    [] r.op = "pos_sub" -> PSub(r.a, r.b)
    [] r.op = "pos_neg" -> PNeg(r.a)
    [] r.op = "pos_add_area" -> ShiftArea(r.a, r.b)
    [] r.op = "manhattan" -> Manhattan(r.a, r.b)
    [] r.op = "euclid2" -> Euclid2(r.a, r.b)
    [] r.op = "delta" -> Delta(r.a)
    [] r.op = "t_mul" -> TMul(T(r.a), T(r.b))
    [] r.op = "t_neg" -> TNeg(T(r.a))
    [] r.op = "t_apply_pos" -> TApply(T(r.a), r.b)
    [] r.op = "t_apply_area" -> TApplyArea(T(r.a), r.b)
    [] r.op = "t_apply_ori" -> TApplyOri(T(r.a), r.b)
    [] r.op = "area_dims" -> <<AHeight(r.a), AWidth(r.a)>>
    [] r.op = "area_contains" -> AreaContains(r.a, r.b)
    [] r.op = "next_position" -> NextPosition(r.a.p, r.a.o, r.b)
    [] r.op = "grid_rot" -> RotGrid(r.a, r.b)
    [] r.op = "front" -> PAdd(r.a.p, Delta(r.a.o))
    [] OTHER -> "unknown"
SetExpected(r) ==
  CASE r.op = "area_positions" -> Positions(r.a)
    [] r.op = "area_border" -> BorderPositions(r.a)
    [] r.op = "area_inside" -> InsidePositions(r.a)
    [] r.op = "manhattan_boundary" -> ManhattanBoundary(r.a, r.b)
IsSetOp(r) == r.op \in {"area_positions", "area_border", "area_inside", "manhattan_boundary"}

\* laws evaluated on the code's own results (record kind "law": lhs and rhs computed by the code)
OK(r) ==
  CASE r.kind = "op" ->
         IF IsSetOp(r) THEN ToSetOfSeq(r.res) = SetExpected(r)
                             /\ (r.op = "manhattan_boundary" => Len(r.res) = Cardinality(SetExpected(r)))
         ELSE r.res = Expected(r)
    [] r.kind = "seq" -> r.res = ManhattanBoundarySeq(r.a, r.b)
    [] r.kind = "law" -> r.lhs = r.rhs
    [] r.kind = "raises" -> r.outcome = r.expect
Report(r) == OK(r) \/ PrintT(<<"BAD", r.id, r.kind, r.op>>)
Init == i = 0
Next == i < Len(Recs) /\ i' = i + 1 /\ Report(Recs[i'])
Done == PrintT(<<"DONE", Len(Recs), TLCGet("distinct")>>)
=============================================================================
