------------------------------- MODULE GVRays -------------------------------
(***************************************************************************)
(* What a ray and a fan of rays must be (utils/raytracing.py, as a         *)
(* postcondition: the floating-point stepping itself is not modelled).     *)
(* A ray is a sequence of positions; a fan is a sequence of rays.          *)
(***************************************************************************)
EXTENDS GVGeometry

Chebyshev(p, q) == LET dy == Abs(p[1] - q[1]) dx == Abs(p[2] - q[2]) IN IF dy > dx THEN dy ELSE dx
OnBorder(A, p) == p[1] = AYMin(A) \/ p[1] = AYMax(A) \/ p[2] = AXMin(A) \/ p[2] = AXMax(A)

RayStarts(ray, origin) == Len(ray) >= 1 /\ ray[1] = origin
RayInside(ray, A) == \A k \in DOMAIN ray : AreaContains(A, ray[k])
RayNoRepeat(ray) == \A k, l \in DOMAIN ray : k # l => ray[k] # ray[l]
RayConnected(ray) == \A k \in 1..(Len(ray) - 1) : Chebyshev(ray[k], ray[k + 1]) = 1
RayEndsOnBorder(ray, A) == OnBorder(A, ray[Len(ray)])

RayFails(ray, origin, A) ==
  (IF RayStarts(ray, origin) THEN {} ELSE {"start"})
  \cup (IF RayInside(ray, A) THEN {} ELSE {"inside"})
  \cup (IF RayNoRepeat(ray) THEN {} ELSE {"repeat"})
  \cup (IF RayConnected(ray) THEN {} ELSE {"jump"})
  \cup (IF Len(ray) >= 1 /\ RayEndsOnBorder(ray, A) THEN {} ELSE {"border"})
RayOK(ray, origin, A) == RayFails(ray, origin, A) = {}

Covered(fan) == UNION {{fan[r][k] : k \in DOMAIN fan[r]} : r \in DOMAIN fan}
FanCovers(fan, A) == Positions(A) \subseteq Covered(fan)
FanOK(fan, origin, A) == (\A r \in DOMAIN fan : RayOK(fan[r], origin, A)) /\ FanCovers(fan, A)
=============================================================================
