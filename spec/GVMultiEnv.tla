----------------------------- MODULE GVMultiEnv -----------------------------
(***************************************************************************)
(* Several live environments, the library-level generator, the two global  *)
(* generators (numpy's and python's) and the library debug flag, with      *)
(* their operations arbitrarily interleaved (C02).                         *)
(*                                                                         *)
(* Every environment owns a generator cursor.  What an environment shows   *)
(* after an operation (its "digest") must be a function of its             *)
(* configuration, its seed and the sequence of operations performed on IT  *)
(* - not of the schedule, of other environments, of the globals, of the    *)
(* debug flag or of the process.  TLC enumerates all schedules; the replay *)
(* harness executes each on real environments and keeps a memo             *)
(* key -> digest, where key is exactly the value `Key(e)` below.           *)
(***************************************************************************)
EXTENDS Integers, Sequences, FiniteSets, TLC

CONSTANTS NEnvs, Depth, SeedPairs   \* SeedPairs: set of seed assignments (sequences of length NEnvs)

Envs == 1..NEnvs
SeedsSame2 == {<<7, 7>>}
SeedsMixed2 == {<<7, 7>>, <<7, 11>>}
SeedsMixed3 == {<<7, 7, 7>>, <<7, 11, 7>>}
EnvOps == {"Reset", "Step", "ReadObs", "ReadState"}
GlobalOps == {"LibOp", "NpOp", "PyOp", "ToggleDebug"}

VARIABLES seed,      \* seed[e]
          prefix,    \* prefix[e]: operations performed on environment e so far
          cursor,    \* cursor[e]: how far e's own generator has advanced (in operations that may draw)
          libCur, npCur, pyCur, debug,
          sched      \* the global schedule: sequence of <<e or 0, op>>

vars == <<seed, prefix, cursor, libCur, npCur, pyCur, debug, sched>>

Init ==
  /\ seed \in SeedPairs
  /\ prefix = [e \in Envs |-> <<>>]
  /\ cursor = [e \in Envs |-> 0]
  /\ libCur = 0 /\ npCur = 0 /\ pyCur = 0 /\ debug = TRUE
  /\ sched = <<>>

MayDraw(e, op) ==
  \/ op \in {"Reset", "Step"}
  \/ (op = "ReadObs" /\ (prefix[e] = <<>> \/ prefix[e][Len(prefix[e])] \notin {"ReadObs"}))
EnvOp(e, op) ==
  /\ (op # "Reset" => \E k \in DOMAIN prefix[e] : prefix[e][k] = "Reset")   \* only after a reset
  /\ prefix' = [prefix EXCEPT ![e] = Append(@, op)]
  /\ cursor' = [cursor EXCEPT ![e] = IF MayDraw(e, op) THEN @ + 1 ELSE @]
  /\ UNCHANGED <<seed, libCur, npCur, pyCur, debug>>
  /\ sched' = Append(sched, <<e, op>>)
GlobalOp(op) ==
  /\ libCur' = IF op = "LibOp" THEN libCur + 1 ELSE libCur
  /\ npCur' = IF op = "NpOp" THEN npCur + 1 ELSE npCur
  /\ pyCur' = IF op = "PyOp" THEN pyCur + 1 ELSE pyCur
  /\ debug' = IF op = "ToggleDebug" THEN ~debug ELSE debug
  /\ UNCHANGED <<seed, prefix, cursor>>
  /\ sched' = Append(sched, <<0, op>>)
Next ==
  /\ Len(sched) < Depth
  /\ \/ \E e \in Envs : \E op \in EnvOps : EnvOp(e, op)
     \/ \E op \in GlobalOps : GlobalOp(op)

\* what the digest of environment e may depend on
Key(e) == <<seed[e], prefix[e]>>

\* action properties: seeded operations leave every global generator alone; an environment's
\* generator advances only through its own operations; global operations leave every environment alone
SeededOpsAreIsolated ==
  [][\A e \in Envs : prefix'[e] # prefix[e] =>
        /\ libCur' = libCur /\ npCur' = npCur /\ pyCur' = pyCur /\ debug' = debug
        /\ \A f \in Envs \ {e} : cursor'[f] = cursor[f] /\ prefix'[f] = prefix[f]]_vars
GlobalOpsAreIsolated ==
  [][(libCur' # libCur \/ npCur' # npCur \/ pyCur' # pyCur \/ debug' # debug) =>
        cursor' = cursor /\ prefix' = prefix]_vars
\* two environments with the same seed and the same own history are indistinguishable
SameKeySameCursor == \A e, f \in Envs : Key(e) = Key(f) => cursor[e] = cursor[f]

Emit == Len(sched) = Depth => PrintT(<<"SCHED", seed, sched>>)
Spec == Init /\ [][Next]_vars
=============================================================================
