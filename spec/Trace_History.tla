---------------------------- MODULE Trace_History ----------------------------
(***************************************************************************)
(* Trace validation of whole histories of a real environment (C08, C09,    *)
(* C10): the file holds one trajectory, record k = [st, a, next, reset]    *)
(* (reset: the environment was reset after this step).  The trace spec     *)
(* carries history variables across the steps and checks, at every step:   *)
(*  - continuity: each step starts where the previous one ended;           *)
(*  - the step is a step of the specification (Step) and obeys the rules;  *)
(*  - the agent is never outside the grid or on a blocking cell;           *)
(*  - the inventory of the episode is conserved (bag of objects);          *)
(*  - a door that was locked at the start of the episode is open only if a *)
(*    matching key was used on it (usedKey), and the agent is beyond the   *)
(*    dividing wall only if the door is open.                              *)
(***************************************************************************)
EXTENDS GVRewards, Json, IOUtils

Recs == ndJsonDeserialize(IOEnv.TRACE_FILE)
Comps == Recs[1].comps
F == Flags(Comps)

VARIABLES i, cur, first, usedKey, bad
vars == <<i, cur, first, usedKey, bad>>

LockedDoors(st) == {p \in GPositions(st.grid) : Cell(st.grid, p).t = "Door" /\ Cell(st.grid, p).s = DoorLocked}
Uses(st, a) == \* the positions of locked doors that this step unlocks with a matching key
  IF a = "ACTUATE" /\ InGrid(st.grid, Front(st)) /\ Cell(st.grid, Front(st)).t = "Door"
       /\ Cell(st.grid, Front(st)).s = DoorLocked /\ st.item.t = "Key" /\ st.item.c = Cell(st.grid, Front(st)).c
    THEN {Front(st)} ELSE {}
BagEq(s1, s2) == \A k \in KindsOf(s1) \cup KindsOf(s2) : CountKind(s1, k) = CountKind(s2, k)
HasBox(st) == \E p \in GPositions(st.grid) : Cell(st.grid, p).t = "Box"

StepFails(r) ==
  (IF r.st = cur THEN {} ELSE {"continuity"})
  \cup (IF r.next \in Step(Comps, r.st, r.a) THEN {} ELSE {"DRIFT.step"})
  \cup (IF F.shaped => KinematicsRule(F, r.st, r.a, r.next) THEN {} ELSE {"C08.kin"})
  \cup (IF AgentOK(r.next) THEN {} ELSE {"C08.agentok"})
  \cup (IF F.shaped => ConservationRule(F, r.st, r.a, r.next) THEN {} ELSE {"C09.cons"})
  \cup (IF HasBox(first) \/ BagEq(first, r.next) THEN {} ELSE {"C09.inventory"})
  \cup (IF F.shaped => DoorRule(F, r.st, r.a, r.next) THEN {} ELSE {"C10.door"})
  \cup (IF \A p \in LockedDoors(first) :
             (Cell(r.next.grid, p).t = "Door" /\ Cell(r.next.grid, p).s = DoorOpen) => p \in (usedKey \cup Uses(r.st, r.a))
        THEN {} ELSE {"C10.history"})
  \cup (IF \A p \in LockedDoors(first) :
             \* key-door layout: the agent is beyond the wall column only when the door is open
             (first.pos[2] < p[2] /\ r.next.pos[2] > p[2] /\ ~F.tele) => Cell(r.next.grid, p).s = DoorOpen
        THEN {} ELSE {"C10.beyond"})

Init == i = 1 /\ cur = Recs[2].st /\ first = Recs[2].st /\ usedKey = {} /\ bad = {}
Next ==
  /\ i < Len(Recs)
  /\ i' = i + 1
  /\ LET r == Recs[i']
         f == StepFails(r)
     IN /\ bad' = bad \cup f
        /\ (IF f = {} THEN TRUE ELSE PrintT(<<"BAD", r.id, f>>))
        /\ IF r.reset
             THEN cur' = Recs[i' + 1].st /\ first' = Recs[i' + 1].st /\ usedKey' = {}
             ELSE cur' = r.next /\ first' = first /\ usedKey' = usedKey \cup Uses(r.st, r.a)
Done == PrintT(<<"DONE", Len(Recs), TLCGet("distinct")>>)
=============================================================================
