----------------------------- MODULE GVRecording -----------------------------
(***************************************************************************)
(* recording.py and utils/space_builders.py as machines.                   *)
(*                                                                         *)
(*  - DataBuilder: append0 exactly once first, then append; build makes a  *)
(*    Data whose constructor demands  #frames - 1 = #actions = #rewards    *)
(*    (so building before append0 fails with ValueError, not RuntimeError).*)
(*  - generate_images(data): one image per frame; the heads-up display of  *)
(*    image 1 is empty, image k+1 shows action k, reward k, the discounted *)
(*    return up to k and done exactly on the last one.                     *)
(*  - record(mode, images, filename, filenames, duration): which writer is *)
(*    called with which timing arguments, or ValueError.                   *)
(*  - StateSpaceBuilder / ObservationSpaceBuilder: build needs all three   *)
(*    setters; the last value of each setter wins.                         *)
(*                                                                         *)
(* Rewards are rnum / 8, the discount is 1 / 2^DExp; returns are scaled    *)
(* as in Trace_Returns (exact in binary floating point).  TLC enumerates   *)
(* all operation sequences of length Depth; the harness executes them on   *)
(* the real classes (imageio and the pyglet viewer replaced by recorders). *)
(***************************************************************************)
EXTENDS Integers, Sequences, FiniteSets, TLC

CONSTANTS Depth, RNums, DExp,
          Stateless   \* TRUE: only the operations without builder state (Data, record); FALSE: only the builders

RNumsDefault == {-12, 20}   \* the configuration file cannot hold negative numbers: RNums <- RNumsDefault

VARIABLES frames,   \* number of frames appended to the DataBuilder
          rews,     \* reward numerators appended (actions are parallel)
          sset,     \* [shape, types, colors] -> 0 (unset) or the value last set (1 or 2)
          hist      \* <<op, argument, outcome, extra>>
vars == <<frames, rews, sset, hist>>

Init == frames = 0 /\ rews = <<>> /\ sset = [k \in {"shape", "types", "colors"} |-> 0] /\ hist = <<>>
Log(op, a, out, extra) == hist' = Append(hist, <<op, a, out, extra>>)

Pow2(n) == 2 ^ n
\* 8 * 2^(DExp*(k-1)) * G_k = sum_{j <= k} r[j] * 2^(DExp*(k-j)), by Horner's rule (a recursive FUNCTION, not a
\* RECURSIVE operator, so that the proof system can read the module)
Scaled(r, k) ==
  LET f[j \in 0..k] == IF j = 0 THEN 0 ELSE f[j - 1] * Pow2(DExp) + r[j]
  IN f[k]
\* the heads-up displays of generate_images: <<has_action, reward numerator, scaled return, done>>
Hud(r) == <<<<FALSE, 0, 0, FALSE>>>> \o [k \in 1..Len(r) |-> <<TRUE, r[k], Scaled(r, k), k = Len(r)>>]

Append0 ==
  /\ UNCHANGED <<rews, sset>>
  /\ IF frames = 0 THEN frames' = 1 /\ Log("append0", 0, "ok", 0)
                   ELSE frames' = frames /\ Log("append0", 0, "RuntimeError", 0)
AppendStep(n) ==
  /\ UNCHANGED sset
  /\ IF frames = 0 THEN UNCHANGED <<frames, rews>> /\ Log("append", n, "RuntimeError", 0)
                   ELSE frames' = frames + 1 /\ rews' = Append(rews, n) /\ Log("append", n, "ok", 0)
\* build() followed by generate_images on the result
Build ==
  /\ UNCHANGED <<frames, rews, sset>>
  /\ IF frames - 1 = Len(rews) THEN Log("build", 0, "ok", Hud(rews)) ELSE Log("build", 0, "ValueError", 0)
\* Data(frames, actions, rewards, discount) directly with f frames, a actions, r rewards
DataDirect(f, a, r) ==
  /\ UNCHANGED <<frames, rews, sset>>
  /\ Log("data", <<f, a, r>>, IF f - 1 = a /\ a = r THEN "ok" ELSE "ValueError", 0)

\* record(mode, images, filename=, filenames=, duration=) with n images; extra = <<writer, format, timing key, num, den>>
Record(mode, hasName, hasNames, n, dur) ==
  /\ UNCHANGED <<frames, rews, sset>>
  /\ LET a == <<mode, hasName, hasNames, n, dur>>
     IN CASE mode = "images" -> IF hasNames THEN Log("record", a, "ok", <<"imwrite", "", "count", n, 1>>) ELSE Log("record", a, "ValueError", 0)
          [] mode = "gif" ->
               IF ~hasName THEN Log("record", a, "ValueError", 0)
               ELSE IF dur = 0 THEN Log("record", a, "ok", <<"mimwrite", "gif", "fps", 2, 1>>)
                                ELSE Log("record", a, "ok", <<"mimwrite", "gif", "duration", dur, n>>)
          [] mode = "mp4" ->
               IF ~hasName THEN Log("record", a, "ValueError", 0)
               ELSE IF dur = 0 THEN Log("record", a, "ok", <<"mimwrite", "mp4", "fps", 2, 1>>)
                                ELSE Log("record", a, "ok", <<"mimwrite", "mp4", "fps", n, dur>>)
          [] OTHER -> Log("record", a, "ok", <<"nothing", "", "", 0, 1>>)   \* unknown modes are silently ignored

\* shape value 1 is 2x3, value 2 is 3x2: an observation space needs an odd width (the agent sits in the middle column)
EvenWidth(v) == v = 2
SetField(k, v) ==
  /\ UNCHANGED <<frames, rews>>
  /\ sset' = [sset EXCEPT ![k] = v]
  /\ Log("set_" \o k, v, "ok", 0)
BuildSpace(kind) ==
  /\ UNCHANGED <<frames, rews, sset>>
  /\ IF \E k \in DOMAIN sset : sset[k] = 0 THEN Log("build_space", kind, "RuntimeError", 0)
     ELSE IF kind = "observation" /\ EvenWidth(sset["shape"]) THEN Log("build_space", kind, "ValueError", 0)
     ELSE Log("build_space", kind, "ok", <<sset["shape"], sset["types"], sset["colors"]>>)

Stateful ==
  \/ Append0 \/ Build
  \/ \E n \in RNums : AppendStep(n)
  \/ \E k \in {"shape", "types", "colors"}, v \in 1..2 : SetField(k, v)
  \/ \E kind \in {"state", "observation"} : BuildSpace(kind)
Pure ==
  \/ \E f \in 0..2, a \in 0..2, r \in 0..2 : DataDirect(f, a, r)
  \/ \E mode \in {"images", "gif", "mp4", "webm"}, hn \in BOOLEAN, hns \in BOOLEAN, dur \in {0, 3} : Record(mode, hn, hns, 2, dur)
Next == Len(hist) < Depth /\ IF Stateless THEN Pure ELSE Stateful

\* the builder can only ever hold a Data-shaped prefix
BuilderShape == (frames = 0 /\ rews = <<>>) \/ frames = Len(rews) + 1
\* a successful build is preceded by a successful append0
BuildAfterAppend0 ==
  \A k \in DOMAIN hist : hist[k][1] = "build" /\ hist[k][3] = "ok" =>
     \E j \in 1..(k - 1) : hist[j][1] = "append0" /\ hist[j][3] = "ok"
\* exactly one heads-up display says done, the last one, unless there is no transition at all
DoneOnlyLast ==
  \A k \in DOMAIN hist : hist[k][1] = "build" /\ hist[k][3] = "ok" =>
     LET h == hist[k][4] IN \A m \in DOMAIN h : h[m][4] = (m = Len(h) /\ m > 1)
Emit == Len(hist) = Depth => PrintT(<<"REC", hist>>)
=============================================================================
