INIT Init
NEXT Next
CONSTANTS
  Source = "init"
INVARIANT InvWin
INVARIANT InvAgentOK
INVARIANT InvCount
CONSTRAINT Pending
VIEW View
POSTCONDITION Post
CHECK_DEADLOCK FALSE
