------------------------------ MODULE Trace_Obs ------------------------------
(***************************************************************************)
(* Trace validation of observation records (C05, C06, C07, C01).           *)
(* The first record of a file is the table of ray fans logged from the     *)
(* implementation in this run: [kind |-> "fans", fans |-> [key |-> fan]].  *)
(***************************************************************************)
EXTENDS GVObservation, Json, IOUtils, TLC

Recs == ndJsonDeserialize(IOEnv.TRACE_FILE)
FanTable == Recs[1].fans
VARIABLE i
vars == <<i>>

W(r, fam, name, ok) == IF fam \in ToSet(r.want) /\ ~ok THEN {name} ELSE {}
Space(s) == [shape |-> s.shape, types |-> ToSet(s.types), colors |-> ToSet(s.colors)]
FanOf(r) == IF r.fankey = "" THEN <<>> ELSE FanTable[r.fankey]
Occluding(f) == f \in {"partially_occluded", "raytracing"}
Deterministic(f) == f \in {"fully_transparent", "partially_occluded", "raytracing"}

\* an observation record: state, area, function, the code's observation
ObsFails(r) ==
  IF r.outcome # "ok" THEN W(r, "C05", "C05.raise", FALSE)
  ELSE LET A == r.area
           view == ViewGrid(r.st, A)
           fan == FanOf(r)
       IN W(r, "C05", "C05.shape", ObsShapeOK(r.ob, A))
          \cup W(r, "C05", "C05.agent", ObsAgentOK(r.st, r.ob, A))
          \cup W(r, "C05", "C05.cells", ObsShapeOK(r.ob, A) => ObsCellsSound(r.st, r.ob, A))
          \cup W(r, "C05", "C05.allshown",
                 (r.fname = "fully_transparent" /\ ObsShapeOK(r.ob, A)) => ObsAllShown(r.st, r.ob, A))
          \cup W(r, "C01", "C01.obsspace", r.ospace = <<>> \/ InObservationSpace(Space(r.ospace[1]), r.ob))
          \cup W(r, "C06", "C06.stoch",
                 (r.fname = "stochastic_raytracing" /\ ObsShapeOK(r.ob, A)) =>
                    \A c \in GPositions(view) :
                       /\ (c \in AlwaysLit(view, fan) => Cell(r.ob.grid, c) = Cell(view, c))
                       /\ (c \notin Raytracing(view, fan) => Cell(r.ob.grid, c) = Hidden))
          \* C06 on the observation itself (views too large for VisTable): the shown cells are the visible in-world
          \* cells, so the agent's own cell is shown and every shown cell hangs on a chain of shown transparent cells
          \cup W(r, "C06", "C06.self",
                 (Occluding(r.fname) /\ ObsShapeOK(r.ob, A) /\ InGrid(view, ViewAgentPos(A))) =>
                    Cell(r.ob.grid, ViewAgentPos(A)) # Hidden)
          \cup W(r, "C06", "C06.chain",
                 (Occluding(r.fname) /\ ObsShapeOK(r.ob, A) /\ InGrid(view, ViewAgentPos(A))) =>
                    ChainConnected(view, {c \in GPositions(view) : Cell(r.ob.grid, c) # Hidden}, ViewAgentPos(A)))
          \cup W(r, "DRIFT", "DRIFT.obs", Deterministic(r.fname) => r.ob = Obs(r.fname, r.st, A, fan))

\* a metamorphic pair: st2 is st with the world cell `cell` replaced; that cell is
\* reported Hidden by (or lies outside) the first observation
PairFails(r) ==
  LET A == r.area
      viewcells == {c \in GPositions(r.ob.grid) : WorldCellOf(r.st, A, c) = r.cell}
  IN IF r.raised THEN W(r, "C06", "C06.raise", FALSE) ELSE
     W(r, "C06", "C06.pairsetup",
        /\ InGrid(r.st.grid, r.cell)
        /\ r.st2 = [r.st EXCEPT !.grid = SetCell(@, r.cell, Cell(r.st2.grid, r.cell))]
        /\ \A c \in viewcells : Cell(r.ob.grid, c) = Hidden)
     \cup W(r, "C06", "C06.nonint", r.ob2 = r.ob)

\* a rotated world: st2 = RotWorld(rot, st) must give an equal observation
RotFails(r) ==
  W(r, "C07", "C07.setup", r.st2 = RotWorld(r.rot, r.st))
  \cup W(r, "C07", "C07.raise", ~r.raised)   \* an area in the function's domain must not raise, in any rotation
  \cup W(r, "C07", "C07.equal", r.raised \/ r.ob2 = r.ob)

Fails(r) ==
  CASE r.kind = "obs" -> ObsFails(r)
    [] r.kind = "pair" -> PairFails(r)
    [] r.kind = "rot" -> RotFails(r)
    [] OTHER -> {}
Report(r) == LET f == Fails(r) IN f = {} \/ PrintT(<<"BAD", r.id, f>>)
Init == i = 0
Next == i < Len(Recs) /\ i' = i + 1 /\ Report(Recs[i'])
Done == PrintT(<<"DONE", Len(Recs), TLCGet("distinct")>>)
=============================================================================
