---------------------------- MODULE Trace_Reward ----------------------------
(***************************************************************************)
(* Trace validation of reward / termination records.  One record holds a   *)
(* state, an action, a list of next states (produced by the real dynamics  *)
(* or arbitrary), lists of reward and termination components, and the      *)
(* value the implementation returned for every (next state, component).    *)
(***************************************************************************)
EXTENDS GVFamilies, Json, IOUtils

Recs == ndJsonDeserialize(IOEnv.TRACE_FILE)
VARIABLE i
vars == <<i>>

RECURSIVE HasBump(_)
HasBump(comp) ==
  \/ comp.name = "bump_into_wall"
  \/ ("reward_functions" \in DOMAIN comp /\ \E k \in DOMAIN comp.reward_functions : HasBump(comp.reward_functions[k]))
  \/ ("terminating_functions" \in DOMAIN comp /\ \E k \in DOMAIN comp.terminating_functions : HasBump(comp.terminating_functions[k]))
OutsideDomain(comp, st, a) == HasBump(comp) /\ ~AgentOK(st) /\ a \notin MoveActions
\* triples whose states are not in the state space (agent outside the grid) are outside every component's domain
InDomain(st, s2) == InGrid(st.grid, st.pos) /\ InGrid(s2.grid, s2.pos)

IsEuclidProportional(comp) ==
  comp.name = "proportional_to_distance" /\ Param(comp, "distance_function", "manhattan") = "euclidean"

RewardOK(comp, st, a, s2, res) ==
  IF ~InDomain(st, s2) \/ OutsideDomain(comp, st, a) THEN TRUE
  ELSE IF ~RewardPre(comp, st, s2) THEN TRUE   \* precondition unmet: any behaviour
  ELSE /\ res.o = "ok"
       /\ res.t = "float"
       /\ IF IsEuclidProportional(comp) THEN EuclidProportionalOK(comp, s2, res.v)
          ELSE res.x /\ res.v = Reward(comp, st, a, s2)
TermOK(comp, st, a, s2, res) ==
  IF ~InDomain(st, s2) \/ OutsideDomain(comp, st, a) THEN TRUE
  ELSE res.o = "ok" /\ res.t = "bool" /\ res.v = Terminates(comp, st, a, s2)

\* agreement between an exit reward (index ri, paying `on` # off) and exit termination (index ti)
AgreeOK(r, n, ag) ==
  (r.rres[n][ag.ri].o = "ok" /\ r.tres[n][ag.ti].o = "ok") =>
     ((r.rres[n][ag.ri].v = ag.on) <=> r.tres[n][ag.ti].v)
\* a composite (index c) equals the sum / any / all of its parts (indices ps), on the code's own values
SumOK(r, n, sm) ==
  LET RECURSIVE Tot(_)
      Tot(k) == IF k > Len(sm.parts) THEN 0 ELSE r.rres[n][sm.parts[k]].v + Tot(k + 1)
  IN (r.rres[n][sm.c].o = "ok" /\ \A k \in DOMAIN sm.parts : r.rres[n][sm.parts[k]].o = "ok") =>
        r.rres[n][sm.c].v = Tot(1)
AnyAllOK(r, n, q) ==
  (r.tres[n][q.c].o = "ok" /\ \A k \in DOMAIN q.parts : r.tres[n][q.parts[k]].o = "ok") =>
     r.tres[n][q.c].v = (IF q.kind = "any" THEN \E k \in DOMAIN q.parts : r.tres[n][q.parts[k]].v
                                          ELSE \A k \in DOMAIN q.parts : r.tres[n][q.parts[k]].v)

Fails(r) ==
  UNION {
    UNION {IF RewardOK(r.rcomps[c], r.st, r.a, r.nexts[n], r.rres[n][c]) THEN {} ELSE {<<"C12.reward", n, r.rcomps[c].name>>}
             : c \in DOMAIN r.rcomps}
    \cup UNION {IF TermOK(r.tcomps[c], r.st, r.a, r.nexts[n], r.tres[n][c]) THEN {} ELSE {<<"C12.term", n, r.tcomps[c].name>>}
             : c \in DOMAIN r.tcomps}
    \cup UNION {IF AgreeOK(r, n, r.agree[k]) THEN {} ELSE {<<"C12.agree", n, "reach_exit">>} : k \in DOMAIN r.agree}
    \cup UNION {IF SumOK(r, n, r.sums[k]) THEN {} ELSE {<<"C12.sum", n, "reduce_sum">>} : k \in DOMAIN r.sums}
    \cup UNION {IF AnyAllOK(r, n, r.anyall[k]) THEN {} ELSE {<<"C12.anyall", n, r.anyall[k].kind>>} : k \in DOMAIN r.anyall}
    : n \in DOMAIN r.nexts}

Report(r) == LET f == Fails(r) IN f = {} \/ PrintT(<<"BAD", r.id, f>>)
Init == i = 0
Next == i < Len(Recs) /\ i' = i + 1 /\ Report(Recs[i'])
Done == PrintT(<<"DONE", Len(Recs), TLCGet("distinct")>>)
=============================================================================
