------------------------------ MODULE GVReset ------------------------------
(***************************************************************************)
(* The eight built-in reset functions (envs/reset_functions.py, design.py) *)
(*  - WellFormed_<f>(p, st): what a returned state must satisfy (C13);     *)
(*  - Honourable_<f>(p): the parameter combinations that can be honoured at *)
(*    all, and MustAccept_<f>(p): those the function documents as valid;    *)
(*  - Init_<f>(p): the generative set, built from the same sequence of      *)
(*    choices as the code (used for small shapes: C14 and drift).           *)
(* Parameters are records: shape = <<H, W>>, layout = <<ly, lx>>, ...      *)
(***************************************************************************)
EXTENDS GVRewards

H_(p) == p.shape[1]
W_(p) == p.shape[2]
FullArea(h, w) == <<<<0, h - 1>>, <<0, w - 1>>>>
Interior(h, w) == InsidePositions(FullArea(h, w))
CountType(g, t) == Cardinality(FindType(g, t))
Blank(h, w) == [i \in 1..h |-> [j \in 1..w |-> Floor]]
WalledGrid(h, w) ==
  [i \in 1..h |-> [j \in 1..w |-> IF i = 1 \/ i = h \/ j = 1 \/ j = w THEN Wall ELSE Floor]]
RECURSIVE SetCells(_, _, _)
SetCells(g, ps, o) == IF ps = {} THEN g ELSE LET q == CHOOSE x \in ps : TRUE IN SetCells(SetCell(g, q, o), ps \ {q}, o)

\* ------------------------------------------------------------------- common
BoundaryOK(g) == \A q \in BorderPositions(GArea(g)) : Cell(g, q) = Wall
AgentStartOK(st) ==
  /\ InGrid(st.grid, st.pos)
  /\ st.ori \in Oris
  /\ st.item = NoneObj
  /\ ~BlocksMovement(Cell(st.grid, st.pos))
  /\ Cell(st.grid, st.pos).t \notin {"Exit", "MovingObstacle", "Telepod"}
WFBase(st, shape) ==
  /\ IsRectangular(st.grid)
  /\ Shape(st.grid) = shape
  /\ BoundaryOK(st.grid)
  /\ AgentStartOK(st)
  /\ \A q \in GPositions(st.grid) : WellFormedObj(Cell(st.grid, q), 1)
OnlyTypes(g, ts) == GridTypes(g) \subseteq ts

\* -------------------------------------------------------------------- empty
Honourable_empty(p) == H_(p) >= 3 /\ W_(p) >= 3 /\ (H_(p) - 2) * (W_(p) - 2) >= 2
MustAccept_empty(p) == H_(p) >= 4 /\ W_(p) >= 4
WellFormed_empty(p, st) ==
  /\ WFBase(st, p.shape)
  /\ OnlyTypes(st.grid, {"Wall", "Floor", "Exit"})
  /\ CountType(st.grid, "Exit") = 1
  /\ \A q \in Interior(H_(p), W_(p)) : Cell(st.grid, q).t # "Wall"
  /\ \A q \in FindType(st.grid, "Exit") : Cell(st.grid, q).c = "NONE"
  /\ (~p.random_exit => Cell(st.grid, <<H_(p) - 2, W_(p) - 2>>).t = "Exit")
  /\ (~p.random_agent => st.pos = <<1, 1>> /\ st.ori = "R")
Init_empty(p) ==
  LET h == H_(p)
      w == W_(p)
      exits == IF p.random_exit THEN Interior(h, w) ELSE {<<h - 2, w - 2>>}
  IN UNION {
       LET g == SetCell(WalledGrid(h, w), e, Exit("NONE"))
       IN IF p.random_agent
            THEN {St(g, q, o, NoneObj) : q \in {c \in Interior(h, w) : IsFloor(Cell(g, c))}, o \in Oris}
            ELSE {St(g, <<1, 1>>, "R", NoneObj)}
       : e \in exits}

\* -------------------------------------------------------------------- rooms
\* numpy.linspace(0, n - 1, num = k + 1, dtype = int)
Splits(n, k) == [i \in 1..(k + 1) |-> ((i - 1) * (n - 1)) \div k]
StrictlyIncreasing(s) == \A i \in 1..(Len(s) - 1) : s[i] < s[i + 1]
RoomsHaveInterior(s) == \A i \in 1..(Len(s) - 1) : s[i + 1] - s[i] >= 2
\* floor cells of a room grid: room interiors plus one passage per interior wall segment
RoomFloorCount(p) ==
  (H_(p) - 1 - p.layout[1]) * (W_(p) - 1 - p.layout[2])
    + (p.layout[1] - 1) * p.layout[2] + p.layout[1] * (p.layout[2] - 1)
Honourable_rooms(p) ==
  /\ p.layout[1] >= 1 /\ p.layout[2] >= 1
  /\ RoomsHaveInterior(Splits(H_(p), p.layout[1])) /\ RoomsHaveInterior(Splits(W_(p), p.layout[2]))
  /\ RoomFloorCount(p) >= 2
MustAccept_rooms(p) ==
  /\ Honourable_rooms(p)
  /\ \A i \in 1..p.layout[1] : Splits(H_(p), p.layout[1])[i + 1] - Splits(H_(p), p.layout[1])[i] >= 3
  /\ \A i \in 1..p.layout[2] : Splits(W_(p), p.layout[2])[i + 1] - Splits(W_(p), p.layout[2])[i] >= 3
WellFormed_rooms(p, st) ==
  /\ WFBase(st, p.shape)
  /\ OnlyTypes(st.grid, {"Wall", "Floor", "Exit"})
  /\ CountType(st.grid, "Exit") = 1
\* the wall lines with one passage per wall segment, as the code draws them
RoomGridWalls(h, w, ys, xs) ==
  [i \in 1..h |-> [j \in 1..w |->
     IF (\E a \in DOMAIN ys : ys[a] = i - 1) \/ (\E b \in DOMAIN xs : xs[b] = j - 1) THEN Wall ELSE Floor]]
\* all ways to open one passage in every interior wall segment: a segment is given by its set of candidate
\* cells; the grids are built segment by segment (the number of grids is the product of the segment widths)
HorizontalSegments(ys, xs) ==
  {{<<ys[a], x>> : x \in (xs[b] + 1)..(xs[b + 1] - 1)} : a \in 2..(Len(ys) - 1), b \in 1..(Len(xs) - 1)}
VerticalSegments(ys, xs) ==
  {{<<y, xs[b]>> : y \in (ys[a] + 1)..(ys[a + 1] - 1)} : a \in 1..(Len(ys) - 1), b \in 2..(Len(xs) - 1)}
RECURSIVE OpenSegments(_, _)
OpenSegments(grids, segs) ==
  IF segs = {} THEN grids
  ELSE LET sg == CHOOSE x \in segs : TRUE
       IN OpenSegments(UNION {{SetCell(g, c, Floor) : c \in sg} : g \in grids}, segs \ {sg})
RoomGrids(h, w, ly, lx) ==
  LET ys == Splits(h, ly)
      xs == Splits(w, lx)
      base == RoomGridWalls(h, w, ys, xs)
  IN OpenSegments({base}, HorizontalSegments(ys, xs) \cup VerticalSegments(ys, xs))
FloorCells(g) == {q \in GPositions(g) : IsFloor(Cell(g, q))}
Init_rooms(p) ==
  UNION {{St(SetCell(g, ae[2], Exit("NONE")), ae[1], o, NoneObj) :
            ae \in {x \in FloorCells(g) \X FloorCells(g) : x[1] # x[2]}, o \in Oris}
         : g \in RoomGrids(H_(p), W_(p), p.layout[1], p.layout[2])}

\* relational form: TLC enumerates the choices instead of building (and sorting) the set
InitRel_rooms(p, s) ==
  \E g \in RoomGrids(H_(p), W_(p), p.layout[1], p.layout[2]) :
    \E a \in FloorCells(g) : \E e \in FloorCells(g) \ {a} : \E o \in Oris :
       s = St(SetCell(g, e, Exit("NONE")), a, o, NoneObj)

\* -------------------------------------------------------- dynamic_obstacles
Honourable_dynamic_obstacles(p) ==
  /\ Honourable_empty(p) /\ p.num_obstacles >= 0
  /\ p.num_obstacles <= (H_(p) - 2) * (W_(p) - 2) - 2
MustAccept_dynamic_obstacles(p) == MustAccept_empty(p) /\ Honourable_dynamic_obstacles(p)
WellFormed_dynamic_obstacles(p, st) ==
  /\ WFBase(st, p.shape)
  /\ OnlyTypes(st.grid, {"Wall", "Floor", "Exit", "MovingObstacle"})
  /\ CountType(st.grid, "Exit") = 1
  /\ Cell(st.grid, <<H_(p) - 2, W_(p) - 2>>).t = "Exit"
  /\ CountType(st.grid, "MovingObstacle") = p.num_obstacles
  /\ \A q \in Interior(H_(p), W_(p)) : Cell(st.grid, q).t # "Wall"
  /\ (~p.random_agent => st.pos = <<1, 1>> /\ st.ori = "R")
PosLess(a, b) == a[1] < b[1] \/ (a[1] = b[1] /\ a[2] < b[2])
RECURSIVE SubsetsOfSize(_, _)
SubsetsOfSize(S, n) == \* all n-element subsets of a set of positions, built constructively
  IF n < 0 \/ n > Cardinality(S) THEN {}
  ELSE IF n = 0 THEN {{}}
  ELSE UNION {{T \cup {x} : T \in SubsetsOfSize({y \in S : PosLess(x, y)}, n - 1)} : x \in S}
Init_dynamic_obstacles(p) ==
  UNION {{[s EXCEPT !.grid = SetCells(@, T, Obstacle)] :
            T \in SubsetsOfSize(FloorCells(s.grid) \ {s.pos}, p.num_obstacles)}
         : s \in Init_empty([shape |-> p.shape, random_agent |-> p.random_agent, random_exit |-> FALSE])}

InitRel_dynamic_obstacles(p, s) ==
  \E s0 \in Init_empty([shape |-> p.shape, random_agent |-> p.random_agent, random_exit |-> FALSE]) :
    \E T \in SubsetsOfSize(FloorCells(s0.grid) \ {s0.pos}, p.num_obstacles) :
       s = [s0 EXCEPT !.grid = SetCells(@, T, Obstacle)]

\* ------------------------------------------------------------------ keydoor
Honourable_keydoor(p) == H_(p) >= 3 /\ W_(p) >= 5
MustAccept_keydoor(p) == H_(p) >= 4 /\ W_(p) >= 5
WallColumns(g) ==
  {x \in 1..(GWidth(g) - 2) : \A y \in 1..(GHeight(g) - 2) : Cell(g, <<y, x>>).t \in {"Wall", "Door"}}
WellFormed_keydoor(p, st) ==
  /\ WFBase(st, p.shape)
  /\ OnlyTypes(st.grid, {"Wall", "Floor", "Exit", "Door", "Key"})
  /\ CountType(st.grid, "Exit") = 1 /\ Cell(st.grid, <<H_(p) - 2, W_(p) - 2>>).t = "Exit"
  /\ CountType(st.grid, "Door") = 1 /\ CountType(st.grid, "Key") = 1
  /\ LET d == CHOOSE q \in GPositions(st.grid) : Cell(st.grid, q).t = "Door"
         k == CHOOSE q \in GPositions(st.grid) : Cell(st.grid, q).t = "Key"
     IN /\ Cell(st.grid, d).s = DoorLocked
        /\ Cell(st.grid, k).c = Cell(st.grid, d).c
        /\ d[2] \in WallColumns(st.grid)                \* the door sits in the dividing wall
        /\ d[1] >= 1 /\ d[1] <= H_(p) - 2
        /\ k[2] < d[2] /\ st.pos[2] < d[2]               \* key and agent on the side away from the exit
        /\ d[2] < W_(p) - 2
        /\ \A q \in Interior(H_(p), W_(p)) : (Cell(st.grid, q).t = "Wall" => q[2] = d[2])
Init_keydoor(p) ==
  LET h == H_(p)
      w == W_(p)
      base == SetCell(WalledGrid(h, w), <<h - 2, w - 2>>, Exit("NONE"))
  IN UNION {
       LET walled == SetCells(base, {<<y, xw>> : y \in 1..(h - 2)}, Wall)
       IN {St(SetCell(SetCell(walled, <<yd, xw>>, Door(DoorLocked, "YELLOW")), k, Key("YELLOW")), a, o, NoneObj) :
             yd \in 1..(h - 2),
             k \in {<<y, x>> : y \in 1..(h - 2), x \in 1..(xw - 1)},
             a \in {<<y, x>> : y \in 1..(h - 2), x \in 1..(xw - 1)},
             o \in Oris}
       : xw \in 2..(w - 3)}

InitRel_keydoor(p, s) ==
  LET h == H_(p)
      w == W_(p)
      base == SetCell(WalledGrid(h, w), <<h - 2, w - 2>>, Exit("NONE"))
  IN \E xw \in 2..(w - 3) : \E yd \in 1..(h - 2) :
       \E k \in {<<y, x>> : y \in 1..(h - 2), x \in 1..(xw - 1)} :
         \E a \in {<<y, x>> : y \in 1..(h - 2), x \in 1..(xw - 1)} : \E o \in Oris :
            s = St(SetCell(SetCell(SetCells(base, {<<y, xw>> : y \in 1..(h - 2)}, Wall), <<yd, xw>>,
                                   Door(DoorLocked, "YELLOW")), k, Key("YELLOW")), a, o, NoneObj)

\* ----------------------------------------------------------------- crossing
Odd(n) == n % 2 = 1
Honourable_crossing(p) == H_(p) >= 5 /\ W_(p) >= 5 /\ Odd(H_(p)) /\ Odd(W_(p)) /\ p.num_rivers >= 1
MustAccept_crossing(p) == Honourable_crossing(p)
WellFormed_crossing(p, st) ==
  /\ WFBase(st, p.shape)
  /\ OnlyTypes(st.grid, {"Wall", "Floor", "Exit", p.object_type})
  /\ CountType(st.grid, "Exit") = 1 /\ Cell(st.grid, <<H_(p) - 2, W_(p) - 2>>).t = "Exit"
  /\ st.pos = <<1, 1>> /\ st.ori = "R"
  \* river cells lie on even rows / columns only
  /\ \A q \in Interior(H_(p), W_(p)) :
       Cell(st.grid, q).t = p.object_type /\ p.object_type # "Floor" => (q[1] % 2 = 0 \/ q[2] % 2 = 0)
RiverObj(t) == Obj(t, 0, "NONE")
\* rivers: a set of horizontal rows RH and vertical columns RV; the path is an
\* interleaving of |RV| horizontal steps and |RH| vertical steps
RECURSIVE CrossPaths(_, _, _, _, _, _, _)
\* all grids obtained by opening a passage at every step of every path from room (ri, rj)
CrossPaths(g, lh, lv, ri, rj, nh, nv) ==
  \* nh = horizontal steps left (crossing vertical rivers), nv = vertical steps left
  IF nh = 0 /\ nv = 0 THEN {g}
  ELSE (IF nh > 0
          THEN UNION {CrossPaths(SetCell(g, <<i, lv[rj + 2]>>, Floor), lh, lv, ri, rj + 1, nh - 1, nv)
                        : i \in (lh[ri + 1] + 1)..(lh[ri + 2] - 1)}
          ELSE {})
       \cup
       (IF nv > 0
          THEN UNION {CrossPaths(SetCell(g, <<lh[ri + 2], j>>, Floor), lh, lv, ri + 1, rj, nh, nv - 1)
                        : j \in (lv[rj + 1] + 1)..(lv[rj + 2] - 1)}
          ELSE {})
SortedSeq(S) == \* ascending sequence of a finite set of integers
  LET RECURSIVE Srt(_)
      Srt(T) == IF T = {} THEN <<>> ELSE LET m == CHOOSE x \in T : \A y \in T : x <= y IN <<m>> \o Srt(T \ {m})
  IN Srt(S)
Init_crossing(p) ==
  LET h == H_(p)
      w == W_(p)
      rows == {i \in 2..(h - 3) : i % 2 = 0}
      cols == {j \in 2..(w - 3) : j % 2 = 0}
      n == IF p.num_rivers > Cardinality(rows) + Cardinality(cols) THEN Cardinality(rows) + Cardinality(cols) ELSE p.num_rivers
      base == SetCell(WalledGrid(h, w), <<h - 2, w - 2>>, Exit("NONE"))
  IN UNION {
       UNION {
         LET g1 == SetCells(base, {<<y, x>> : y \in RH, x \in 1..(w - 2)}, RiverObj(p.object_type))
             g2 == SetCells(g1, {<<y, x>> : y \in 1..(h - 2), x \in RV}, RiverObj(p.object_type))
             lh == <<0>> \o SortedSeq(RH) \o <<h - 1>>
             lv == <<0>> \o SortedSeq(RV) \o <<w - 1>>
         IN {St(g, <<1, 1>>, "R", NoneObj) : g \in CrossPaths(g2, lh, lv, 0, 0, Cardinality(RV), Cardinality(RH))}
         : RV \in {R \in SUBSET cols : Cardinality(R) = n - Cardinality(RH)}}
       : RH \in {R \in SUBSET rows : Cardinality(R) <= n /\ n - Cardinality(R) <= Cardinality(cols)}}

\* ----------------------------------------------------------------- teleport
Honourable_teleport(p) == H_(p) >= 3 /\ W_(p) >= 3 /\ (H_(p) - 2) * (W_(p) - 2) >= 4
MustAccept_teleport(p) == H_(p) >= 4 /\ W_(p) >= 4
WellFormed_teleport(p, st) ==
  /\ WFBase(st, p.shape)
  /\ OnlyTypes(st.grid, {"Wall", "Floor", "Exit", "Telepod"})
  /\ CountType(st.grid, "Exit") = 1 /\ Cell(st.grid, <<H_(p) - 2, W_(p) - 2>>).t = "Exit"
  /\ CountType(st.grid, "Telepod") = 2
  /\ \A q, r \in FindType(st.grid, "Telepod") : Cell(st.grid, q).c = Cell(st.grid, r).c /\ Cell(st.grid, q).c # "NONE"
  /\ \A q \in Interior(H_(p), W_(p)) : Cell(st.grid, q).t # "Wall"
  /\ st.pos = <<1, 1>> /\ st.ori \in {"R", "B"}
Init_teleport(p) ==
  LET h == H_(p)
      w == W_(p)
      base == SetCell(WalledGrid(h, w), <<h - 2, w - 2>>, Exit("NONE"))
  IN {St(SetCells(base, T, Telepod("RED")), <<1, 1>>, o, NoneObj) :
        T \in SubsetsOfSize(FloorCells(base) \ {<<1, 1>>}, 2), o \in {"R", "B"}}

\* ------------------------------------------------------------------- memory
ColorsOK(cs) == "NONE" \notin cs /\ Cardinality(cs) >= 2 /\ cs \subseteq Colors
Honourable_memory(p) == H_(p) >= 5 /\ W_(p) >= 5 /\ Odd(W_(p)) /\ ColorsOK(p.colors)
MustAccept_memory(p) == Honourable_memory(p)
MemoryGoalExits(st) == \* exits whose colour is the beacons' colour
  {q \in FindType(st.grid, "Exit") : \A b \in FindType(st.grid, "Beacon") : Cell(st.grid, b).c = Cell(st.grid, q).c}
ExitsDistinct(g) == \A q, r \in FindType(g, "Exit") : q # r => Cell(g, q).c # Cell(g, r).c
BeaconsMatchExactlyOne(st) ==
  /\ FindType(st.grid, "Beacon") # {}
  /\ \A b, c \in FindType(st.grid, "Beacon") : Cell(st.grid, b).c = Cell(st.grid, c).c
  /\ Cardinality(MemoryGoalExits(st)) = 1
WellFormed_memory(p, st) ==
  /\ WFBase(st, p.shape)
  /\ OnlyTypes(st.grid, {"Wall", "Floor", "Exit", "Beacon"})
  /\ CountType(st.grid, "Exit") = 2 /\ ExitsDistinct(st.grid)
  /\ \A q \in FindType(st.grid, "Exit") \cup FindType(st.grid, "Beacon") : Cell(st.grid, q).c \in p.colors
  /\ BeaconsMatchExactlyOne(st)
  /\ st.pos = <<H_(p) \div 2, W_(p) \div 2>> /\ st.ori = "F"
MemoryBase(h, w) ==
  LET allwall == [i \in 1..h |-> [j \in 1..w |-> Wall]]
      c1 == SetCells(allwall, {<<1, x>> : x \in 2..(w - 3)}, Floor)
      c2 == SetCells(c1, {<<h - 2, x>> : x \in 2..(w - 3)}, Floor)
  IN SetCells(c2, {<<y, w \div 2>> : y \in 2..(h - 3)}, Floor)
Init_memory(p) ==
  LET h == H_(p)
      w == W_(p)
  IN {St(SetCell(SetCell(SetCell(SetCell(MemoryBase(h, w), <<1, xg>>, Exit(cc[1])), <<1, (w - 1) - xg>>, Exit(cc[2])),
                         <<h - 2, 1>>, Beacon(cc[1])), <<h - 2, w - 2>>, Beacon(cc[1])),
         <<h \div 2, w \div 2>>, "F", NoneObj)
        : cc \in {x \in p.colors \X p.colors : x[1] # x[2]}, xg \in {1, w - 2}}

\* ------------------------------------------------------------- memory_rooms
Honourable_memory_rooms(p) ==
  /\ p.layout[1] >= 1 /\ p.layout[2] >= 1
  /\ RoomsHaveInterior(Splits(H_(p), p.layout[1])) /\ RoomsHaveInterior(Splits(W_(p), p.layout[2]))
  /\ ColorsOK(p.colors) /\ p.num_beacons >= 1 /\ p.num_exits >= 2
  /\ p.num_exits <= Cardinality(p.colors)
  /\ 1 + p.num_beacons + p.num_exits <= RoomFloorCount(p)
MustAccept_memory_rooms(p) ==
  /\ Honourable_memory_rooms(p)
  /\ \A i \in 1..p.layout[1] : Splits(H_(p), p.layout[1])[i + 1] - Splits(H_(p), p.layout[1])[i] >= 3
  /\ \A i \in 1..p.layout[2] : Splits(W_(p), p.layout[2])[i + 1] - Splits(W_(p), p.layout[2])[i] >= 3
WellFormed_memory_rooms(p, st) ==
  /\ WFBase(st, p.shape)
  /\ OnlyTypes(st.grid, {"Wall", "Floor", "Exit", "Beacon"})
  /\ CountType(st.grid, "Exit") = p.num_exits /\ ExitsDistinct(st.grid)
  /\ CountType(st.grid, "Beacon") = p.num_beacons
  /\ \A q \in FindType(st.grid, "Exit") \cup FindType(st.grid, "Beacon") : Cell(st.grid, q).c \in p.colors
  /\ BeaconsMatchExactlyOne(st)
\* generative set with a fixed orientation and fixed colours (used for winnability only:
\* neither affects reachability)
Init_memory_rooms_reduced(p, good, bad) ==
  UNION {{St(SetCell(SetCell(SetCell(g, q[2], Beacon(good)), q[3], Exit(good)), q[4], Exit(bad)), q[1], "F", NoneObj) :
            q \in {x \in FloorCells(g) \X FloorCells(g) \X FloorCells(g) \X FloorCells(g) :
                     Cardinality({x[1], x[2], x[3], x[4]}) = 4}}
         : g \in RoomGrids(H_(p), W_(p), p.layout[1], p.layout[2])}

InitRel_memory_rooms_reduced(p, good, bad, s) ==
  \E g \in RoomGrids(H_(p), W_(p), p.layout[1], p.layout[2]) :
    \E a \in FloorCells(g) : \E b \in FloorCells(g) \ {a} :
      \E e1 \in FloorCells(g) \ {a, b} : \E e2 \in FloorCells(g) \ {a, b, e1} :
         s = St(SetCell(SetCell(SetCell(g, b, Beacon(good)), e1, Exit(good)), e2, Exit(bad)), a, "F", NoneObj)

\* ------------------------------------------------- coin_maze (examples/coin_env.py)
CoinObj == Obj("Coin", 0, "NONE")
CoinMazeBase ==
  LET g0 == [i \in 1..7 |-> [j \in 1..9 |-> IF i = 1 \/ i = 7 \/ j = 1 \/ j = 9 THEN Wall ELSE CoinObj]]
      g1 == SetCells(g0, BorderPositions(<<<<2, 4>>, <<2, 6>>>>), Wall)
  IN SetCell(SetCell(g1, <<2, 3>>, CoinObj), <<4, 5>>, CoinObj)
Init_coin_maze ==
  {St(SetCell(CoinMazeBase, q, Floor), q, o, NoneObj) :
     q \in {c \in GPositions(CoinMazeBase) : Cell(CoinMazeBase, c).t = "Coin"}, o \in Oris}
WellFormed_coin_maze(st) == st \in Init_coin_maze /\ WFBase(st, <<7, 9>>)

\* ---------------------------------------------------------------- dispatch
WellFormed(f, p, st) ==
  CASE f = "empty" -> WellFormed_empty(p, st)
    [] f = "rooms" -> WellFormed_rooms(p, st)
    [] f = "dynamic_obstacles" -> WellFormed_dynamic_obstacles(p, st)
    [] f = "keydoor" -> WellFormed_keydoor(p, st)
    [] f = "crossing" -> WellFormed_crossing(p, st)
    [] f = "teleport" -> WellFormed_teleport(p, st)
    [] f = "memory" -> WellFormed_memory(p, st)
    [] f = "memory_rooms" -> WellFormed_memory_rooms(p, st)
    [] f = "coin_maze" -> WellFormed_coin_maze(st)
Honourable(f, p) ==
  CASE f = "empty" -> Honourable_empty(p)
    [] f = "rooms" -> Honourable_rooms(p)
    [] f = "dynamic_obstacles" -> Honourable_dynamic_obstacles(p)
    [] f = "keydoor" -> Honourable_keydoor(p)
    [] f = "crossing" -> Honourable_crossing(p)
    [] f = "teleport" -> Honourable_teleport(p)
    [] f = "memory" -> Honourable_memory(p)
    [] f = "memory_rooms" -> Honourable_memory_rooms(p)
    [] f = "coin_maze" -> TRUE
MustAccept(f, p) ==
  CASE f = "empty" -> MustAccept_empty(p)
    [] f = "rooms" -> MustAccept_rooms(p)
    [] f = "dynamic_obstacles" -> MustAccept_dynamic_obstacles(p)
    [] f = "keydoor" -> MustAccept_keydoor(p)
    [] f = "crossing" -> MustAccept_crossing(p)
    [] f = "teleport" -> MustAccept_teleport(p)
    [] f = "memory" -> MustAccept_memory(p)
    [] f = "memory_rooms" -> MustAccept_memory_rooms(p)
    [] f = "coin_maze" -> TRUE
\* generative sets for the functions whose parameters fit a record (drift / model checking)
HasInit(f) == f \in {"empty", "rooms", "dynamic_obstacles", "keydoor", "crossing", "teleport", "memory"}
InitSet(f, p) ==
  CASE f = "empty" -> Init_empty(p)
    [] f = "rooms" -> Init_rooms(p)
    [] f = "dynamic_obstacles" -> Init_dynamic_obstacles(p)
    [] f = "keydoor" -> Init_keydoor(p)
    [] f = "crossing" -> Init_crossing(p)
    [] f = "teleport" -> Init_teleport(p)
    [] f = "memory" -> Init_memory(p)
\* relational form of the generative sets (s is a member of Init_<f>(p))
InitRel(f, p, s) ==
  CASE f = "rooms" -> InitRel_rooms(p, s)
    [] f = "dynamic_obstacles" -> InitRel_dynamic_obstacles(p, s)
    [] f = "keydoor" -> InitRel_keydoor(p, s)
    [] f = "memory_rooms" -> InitRel_memory_rooms_reduced(p, "RED", "BLUE", s)
    [] OTHER -> s \in InitSet(f, p)
=============================================================================
