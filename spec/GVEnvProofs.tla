----------------------------- MODULE GVEnvProofs -----------------------------
(***************************************************************************)
(* TLAPS proofs about the environment machine GVEnv, for every depth and   *)
(* every set of explored operations (TLC checks depth 5-6):                *)
(*   NotStale                  the memoised observation, if any, belongs   *)
(*                             to the current state (C04)                  *)
(*   RewardTermWithTransition  reward and termination are evaluated        *)
(*                             exactly once per transition (C04, C20)      *)
(***************************************************************************)
EXTENDS GVEnv, TLAPS

CallsOK == calls \in [reset : Nat, trans : Nat, rew : Nat, term : Nat, obs : Nat]
Inv == CallsOK /\ NotStale /\ RewardTermWithTransition

LEMMA InitInv == Init => Inv
  BY DEF Init, Inv, CallsOK, NotStale, RewardTermWithTransition, Zero, None

LEMMA DoInv == ASSUME Inv, NEW op \in AllOps, Do(op) PROVE Inv'
<1> USE DEF Inv, CallsOK, NotStale, RewardTermWithTransition, None, Log
<1>1. CASE op = "Reset" BY <1>1 DEF Do, Reset, DoReset
<1>2. CASE op = "Step" BY <1>2 DEF Do, Step, DoStep
<1>3. CASE op = "StepInvalid" BY <1>3 DEF Do, StepInvalid
<1>4. CASE op = "ReadObs" BY <1>4 DEF Do, ReadObs, DoReadObs
<1>5. CASE op = "ReadState" BY <1>5 DEF Do, ReadState
<1>6. CASE op = "OuterObs" BY <1>6 DEF Do, OuterObs, DoReadObs
<1>7. CASE op = "OuterState" BY <1>7 DEF Do, OuterState
<1>8. CASE op = "FuncReset" BY <1>8 DEF Do, FuncReset
<1>9. CASE op = "FuncStep" BY <1>9 DEF Do, FuncStep
<1>10. CASE op = "FuncObs" BY <1>10 DEF Do, FuncObs
<1>11. CASE op = "GymReset" BY <1>11 DEF Do, GymReset
<1>12. CASE op = "GymStep" BY <1>12 DEF Do, GymStep
<1>13. CASE op = "GymObs" BY <1>13 DEF Do, GymObs, DoReadObs
<1>14. CASE op = "GymState" BY <1>14 DEF Do, GymState
<1>15. CASE op = "WrapReset" BY <1>15 DEF Do, WrapReset
<1>16. CASE op = "WrapStep" BY <1>16 DEF Do, WrapStep
<1>17. CASE op = "SetObsRep" BY <1>17 DEF Do, SetObsRep
<1>18. CASE op = "SetStateRep" BY <1>18 DEF Do, SetStateRep
<1> QED BY <1>1, <1>2, <1>3, <1>4, <1>5, <1>6, <1>7, <1>8, <1>9, <1>10, <1>11, <1>12, <1>13, <1>14, <1>15, <1>16, <1>17, <1>18 DEF AllOps

ASSUME OpsAssump == Ops \subseteq AllOps

LEMMA StepInv == Inv /\ [Next]_vars => Inv'
<1> SUFFICES ASSUME Inv, [Next]_vars PROVE Inv'
  OBVIOUS
<1>1. CASE UNCHANGED vars
  BY <1>1 DEF Inv, CallsOK, NotStale, RewardTermWithTransition, vars
<1>2. CASE Next
  BY <1>2, DoInv, OpsAssump DEF Next
<1> QED BY <1>1, <1>2

THEOREM NeverStale == Init /\ [][Next]_vars => [](NotStale /\ RewardTermWithTransition)
<1>1. Inv => NotStale /\ RewardTermWithTransition
  BY DEF Inv
<1> QED BY InitInv, StepInv, <1>1, PTL
=============================================================================
