------------------------------- MODULE MC_Obs -------------------------------
(***************************************************************************)
(* Model checking the observation pipeline on small scopes (C05, C07):     *)
(*  - the pipeline of the code (transform area, slice, rotate) equals the  *)
(*    pointwise statement, for position-labelled grids, every pose and     *)
(*    every view area with bounds in -B..B;                                *)
(*  - any masking of the view yields a sound observation;                  *)
(*  - the view is invariant under rotating the whole world.                *)
(***************************************************************************)
EXTENDS GVObservation

CONSTANTS MaxDim,   \* grid shapes 1..MaxDim x 1..MaxDim
          B         \* area bounds in -B..B

VARIABLES st, area
vars == <<st, area>>

\* every cell a distinct object (the colour field carries the label)
Labels == <<"a", "b", "c", "d", "e", "f", "g", "h", "i", "j", "k", "l", "m", "n", "o", "p", "q", "r", "s", "t", "u", "v", "w", "x", "y">>
LabelGrid(h, w) == [i \in 1..h |-> [j \in 1..w |-> Obj("Exit", 0, Labels[(i - 1) * w + j])]]
Areas == {<<<<y1, y2>>, <<x1, x2>>>> : y1 \in (-B)..B, y2 \in (-B)..B, x1 \in (-B)..B, x2 \in (-B)..B}
ValidAreas == {A \in Areas : AreaOK(A)}

Init ==
  /\ \E h \in 1..MaxDim, w \in 1..MaxDim :
       \E p \in Positions(<<<<0, h - 1>>, <<0, w - 1>>>>), o \in Oris :
          st = St(LabelGrid(h, w), p, o, Key("RED"))
  /\ area = <<<<0, 0>>, <<0, 0>>>>
\* the areas are explored through Next so that TLC's workers share them
Next == area = <<<<0, 0>>, <<0, 0>>>> /\ area' \in ValidAreas /\ st' = st

InvPipelineIsPointwise == ViewGrid(st, area) = ViewPointwise(st, area)
InvShape == Shape(ViewGrid(st, area)) = <<AHeight(area), AWidth(area)>>
\* the agent's own cell is where the anchor says, when the anchor is inside the view
InvAnchor ==
  AreaContains(area, <<0, 0>>) =>
     /\ InGrid(ViewGrid(st, area), ViewAgentPos(area))
     /\ Cell(ViewGrid(st, area), ViewAgentPos(area)) = Cell(st.grid, st.pos)
\* every mask gives a sound observation (small views only)
InvMaskedSound ==
  AHeight(area) * AWidth(area) <= 6 =>
     \A V \in SUBSET GPositions(ViewGrid(st, area)) : ObsSound(st, ObsWith(st, area, V), area)
InvFullShown ==
  LET ob == ObsWith(st, area, FullyTransparent(ViewGrid(st, area), ViewAgentPos(area)))
  IN ObsSound(st, ob, area) /\ ObsAllShown(st, ob, area)
\* C07: rotating the world leaves the view unchanged
InvRotation ==
  \A r \in Oris :
     LET st2 == RotWorld(r, st)
     IN /\ InGrid(st2.grid, st2.pos)
        /\ Cell(st2.grid, st2.pos) = Cell(st.grid, st.pos)
        /\ ViewGrid(st2, area) = ViewGrid(st, area)
\* rotations compose: rotating by r then by s is rotating by r*s; four quarter turns restore the world
InvRotationGroup ==
  /\ \A r, s \in Oris : RotWorld(s, RotWorld(r, st)) = RotWorld(Mul(r, s), st)
  /\ RotWorld("F", st) = st
=============================================================================
