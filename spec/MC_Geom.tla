------------------------------- MODULE MC_Geom -------------------------------
(***************************************************************************)
(* C18 on the specification, exhaustively for small coordinates: the laws  *)
(* proved in GVGeometryProofs re-checked by TLC, plus the finite-set       *)
(* statements (areas as sets of positions, grid rotation as a bijection).  *)
(***************************************************************************)
EXTENDS GVGeometry, TLC
ToSetOfSeq(s) == {s[k] : k \in DOMAIN s}

CONSTANTS B, MaxDim
R == (-B)..B
Pos == R \X R
Areas == {<<<<y1, y2>>, <<x1, x2>>>> : y1 \in R, y2 \in R, x1 \in R, x2 \in R}
ValidAreas == {A \in Areas : AreaOK(A)}
Transforms == [p : Pos, o : Oris]

VARIABLES t, u
vars == <<t, u>>
Init == t \in Transforms /\ u = t
Next == u = t /\ u' \in Transforms /\ t' = t /\ u' # t

InvGroup ==
  /\ \A a, b \in Oris : Mul(a, b) \in Oris /\ Mul(a, b) = Mul(b, a)
  /\ \A a, b, c \in Oris : Mul(Mul(a, b), c) = Mul(a, Mul(b, c))
  /\ \A a \in Oris : Mul("F", a) = a /\ Mul(a, Neg(a)) = "F" /\ Mul(Neg(a), a) = "F"
  /\ {"R", Mul("R", "R"), Mul("R", Mul("R", "R")), Mul("R", Mul("R", Mul("R", "R")))} = Oris
InvRot ==
  /\ Rot(t.o, PAdd(t.p, u.p)) = PAdd(Rot(t.o, t.p), Rot(t.o, u.p))
  /\ Norm2(Rot(t.o, u.p)) = Norm2(u.p)
  /\ Manhattan(Rot(t.o, t.p), Rot(t.o, u.p)) = Manhattan(t.p, u.p)
  /\ Rot(t.o, Rot(u.o, t.p)) = Rot(Mul(t.o, u.o), t.p)
InvTransform ==
  /\ TMul(t, TNeg(t)) = TId /\ TMul(TNeg(t), t) = TId /\ TMul(TId, t) = t /\ TMul(t, TId) = t
  /\ TApply(TMul(t, u), t.p) = TApply(t, TApply(u, t.p))
  /\ \A o \in Oris : TMul(TMul(t, u), [p |-> u.p, o |-> o]) = TMul(t, TMul(u, [p |-> u.p, o |-> o]))
  /\ TApplyOri(TMul(t, u), "R") = TApplyOri(t, TApplyOri(u, "R"))
\* transforming an area transforms exactly its set of positions
InvAreas ==
  u = t =>
    \A A \in {X \in ValidAreas : AHeight(X) * AWidth(X) <= 6} :
       /\ {TApply(t, q) : q \in Positions(A)} = Positions(TApplyArea(t, A))
       /\ AreaOK(TApplyArea(t, A))
       /\ \A q \in Pos : AreaContains(A, q) <=> AreaContains(TApplyArea(t, A), TApply(t, q))
InvNextPosition ==
  \A a \in AllActions :
     NextPosition(t.p, t.o, a) = (IF a \in MoveActions THEN TApply(t, Delta(MoveDir(a))) ELSE t.p)
InvBoundary ==
  u = t =>
    \A d \in 1..3 :
       /\ ToSetOfSeq(ManhattanBoundarySeq(t.p, d)) = ManhattanBoundary(t.p, d)
       /\ Len(ManhattanBoundarySeq(t.p, d)) = 4 * d
       /\ Cardinality(ManhattanBoundary(t.p, d)) = 4 * d
\* grid rotation: a bijection of cells, undone by the inverse rotation, composing like the group
LabelGrid(h, w) == [i \in 1..h |-> [j \in 1..w |-> <<i, j>>]]
InvGridRotation ==
  u = t =>
    \A h \in 1..MaxDim : \A w \in 1..MaxDim :
       LET g == LabelGrid(h, w)
           rg == RotGrid(t.o, g)
       IN /\ IsRectangular(rg)
          /\ {Cell(rg, q) : q \in GPositions(rg)} = {Cell(g, q) : q \in GPositions(g)}
          /\ Cardinality(GPositions(rg)) = h * w
          /\ RotGrid(Neg(t.o), rg) = g
          /\ \A o \in Oris : RotGrid(o, rg) = RotGrid(Mul(t.o, o), g)
          /\ \A q \in GPositions(g) : Cell(rg, RotGridPos(t.o, g, q)) = Cell(g, q)
          /\ <<GHeight(rg), GWidth(rg)>> = (IF t.o \in {"F", "B"} THEN <<h, w>> ELSE <<w, h>>)
=============================================================================
