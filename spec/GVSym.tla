------------------------------- MODULE GVSym -------------------------------
(***************************************************************************)
(* A typed, flat companion of the key-door dynamics (move_agent,           *)
(* turn_agent, actuate_door, pickndrop) for Apalache: cells hold integer   *)
(* kind codes  kind = 100 * type + 10 * status + colour.  It is used to    *)
(* discharge step lemmas for EVERY content of a grid of a fixed shape at   *)
(* once (IndInv /\ Next => IndInv'), and is tied to the main specification *)
(* by a TLC check that Flatten commutes with Step (MC_SymLink).            *)
(***************************************************************************)
EXTENDS Integers

CONSTANTS
  \* @type: Int;
  H,
  \* @type: Int;
  W

VARIABLES
  \* @type: <<Int, Int>> -> Int;
  cell,
  \* @type: <<Int, Int>>;
  pos,
  \* @type: Int;
  ori,
  \* @type: Int;
  held,
  \* @type: Int;
  lastAction

\* type codes (type_index of the library): 0 none, 2 Floor, 3 Wall, 4 Exit, 5 Door, 6 Key, 9 Telepod, 10 Beacon
TypeOf(k) == k \div 100
StatusOf(k) == (k \div 10) % 10
ColorOf(k) == k % 10
Kind(t, s, c) == 100 * t + 10 * s + c
NoneK == 0
FloorK == 200
ColorSet == 0..4
CellKinds ==
  {200, 300} \cup {Kind(4, 0, c) : c \in ColorSet} \cup {Kind(5, s, c) : s \in 0..2, c \in ColorSet}
  \cup {Kind(6, 0, c) : c \in ColorSet} \cup {Kind(9, 0, c) : c \in ColorSet} \cup {Kind(10, 0, c) : c \in ColorSet}
HeldKinds == CellKinds \cup {NoneK}
\* @type: Set(<<Int, Int>>);
Cells == {<<y, x>> : y \in 0..(H - 1), x \in 0..(W - 1)}
InGrid(p) == p \in Cells

Blocks(k) == TypeOf(k) = 3 \/ (TypeOf(k) = 5 /\ StatusOf(k) # 0)
Holdable(k) == TypeOf(k) = 6

\* actions 0..7: MOVE_FORWARD, MOVE_BACKWARD, MOVE_LEFT, MOVE_RIGHT, TURN_LEFT, TURN_RIGHT, ACTUATE, PICK_N_DROP
\* orientations 0..3 = F, R, B, L (clockwise)
DeltaY(o) == IF o = 0 THEN -1 ELSE IF o = 2 THEN 1 ELSE 0
DeltaX(o) == IF o = 1 THEN 1 ELSE IF o = 3 THEN -1 ELSE 0
MoveDir(a) == IF a = 0 THEN 0 ELSE IF a = 1 THEN 2 ELSE IF a = 2 THEN 3 ELSE 1
\* @type: (<<Int, Int>>, Int) => <<Int, Int>>;
Ahead(p, o) == <<p[1] + DeltaY(o), p[2] + DeltaX(o)>>
\* @type: <<Int, Int>>;
Front == Ahead(pos, ori)

Move(a) ==
  LET t == Ahead(pos, (ori + MoveDir(a)) % 4)
  IN /\ pos' = IF InGrid(t) /\ ~Blocks(cell[t]) THEN t ELSE pos
     /\ UNCHANGED <<cell, ori, held>>
Turn(a) ==
  /\ ori' = IF a = 4 THEN (ori + 3) % 4 ELSE (ori + 1) % 4
  /\ UNCHANGED <<cell, pos, held>>
CanOpen(k) == StatusOf(k) = 1 \/ (StatusOf(k) = 2 /\ TypeOf(held) = 6 /\ ColorOf(held) = ColorOf(k))
Actuate ==
  /\ cell' = IF InGrid(Front) /\ TypeOf(cell[Front]) = 5 /\ CanOpen(cell[Front])
               THEN [cell EXCEPT ![Front] = Kind(5, 0, ColorOf(cell[Front]))] ELSE cell
  /\ UNCHANGED <<pos, ori, held>>
PickNDrop ==
  IF InGrid(Front) /\ (cell[Front] = FloorK \/ Holdable(cell[Front]))
    THEN /\ cell' = [cell EXCEPT ![Front] = IF held # NoneK THEN held ELSE FloorK]
         /\ held' = IF Holdable(cell[Front]) THEN cell[Front] ELSE NoneK
         /\ UNCHANGED <<pos, ori>>
    ELSE UNCHANGED <<cell, pos, ori, held>>

Next ==
  \E a \in 0..7 :
    /\ lastAction' = a
    /\ IF a <= 3 THEN Move(a) ELSE IF a <= 5 THEN Turn(a) ELSE IF a = 6 THEN Actuate ELSE PickNDrop

TypeOK ==
  /\ cell \in [Cells -> CellKinds]
  /\ pos \in Cells
  /\ ori \in 0..3
  /\ held \in HeldKinds
  /\ lastAction \in 0..7
AgentOK == ~Blocks(cell[pos])
IndInv == TypeOK /\ AgentOK
Init == IndInv

\* action invariants (step lemmas over every grid content)
\* C08: a move displaces the agent exactly when the target is in the grid and free; nothing else moves it
KinematicsLemma ==
  LET a == lastAction'
      t == Ahead(pos, (ori + MoveDir(a)) % 4)
  IN /\ (a <= 3 => pos' = (IF InGrid(t) /\ ~Blocks(cell[t]) THEN t ELSE pos) /\ ori' = ori)
     /\ (a > 3 => pos' = pos)
     /\ (a = 4 => ori' = (ori + 3) % 4) /\ (a = 5 => ori' = (ori + 1) % 4) /\ (a > 5 => ori' = ori)
\* C10: doors stay doors of the same colour, change status only by a faced ACTUATE that may open them, and only to open
DoorLemma ==
  \A c \in Cells :
    TypeOf(cell[c]) = 5 =>
      /\ TypeOf(cell'[c]) = 5 /\ ColorOf(cell'[c]) = ColorOf(cell[c])
      /\ (StatusOf(cell'[c]) # StatusOf(cell[c]) =>
            lastAction' = 6 /\ c = Front /\ CanOpen(cell[c]) /\ StatusOf(cell'[c]) = 0)
      /\ ((lastAction' = 6 /\ c = Front /\ CanOpen(cell[c])) => StatusOf(cell'[c]) = 0)
\* C09 (locality): only the front cell can change, only under ACTUATE or PICK_N_DROP; scenery never changes kind
LocalityLemma ==
  \A c \in Cells :
    cell'[c] # cell[c] =>
      /\ c = Front /\ lastAction' >= 6
      /\ (lastAction' = 7 => (cell[c] = FloorK \/ Holdable(cell[c])))
\* C09 (conservation, per step): pick / drop / swap exchange the held object with the front cell
ExchangeLemma ==
  lastAction' = 7 =>
    \/ (cell' = cell /\ held' = held)
    \/ (/\ InGrid(Front) /\ cell'[Front] = (IF held # NoneK THEN held ELSE FloorK)
        /\ held' = (IF Holdable(cell[Front]) THEN cell[Front] ELSE NoneK))
HeldLemma == lastAction' # 7 => held' = held
=============================================================================
