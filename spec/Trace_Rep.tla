------------------------------ MODULE Trace_Rep ------------------------------
(***************************************************************************)
(* Trace validation of representation records (C15, C16).                  *)
(* kind "space": the spaces declared by make_*_representation(name, space) *)
(* kind "conv":  convert(member) with dtypes / contains() / gym spaces     *)
(* kind "pair":  two members, their arrays, python equality and hashes     *)
(***************************************************************************)
EXTENDS GVRepresentation, Json, IOUtils, TLC

Recs == ndJsonDeserialize(IOEnv.TRACE_FILE)
VARIABLE i
vars == <<i>>

Sp(r) == [shape |-> r.space.shape, types |-> ToSet(r.space.types), colors |-> ToSet(r.space.colors)]
Clause(name, ok) == IF ok THEN {} ELSE {name}
Keys(r) == IF r.kind_ = "state" THEN {"grid", "agent_id_grid", "agent", "item"} ELSE {"grid", "agent_id_grid", "item"}
Tile(h, w, v) == [a \in 1..h |-> [b \in 1..w |-> v]]
Zeros3 == <<0, 0, 0>>

\* the space the specification declares for key k
SpecLo(r, cx, k) ==
  CASE k = "grid" -> Tile(r.space.shape[1], r.space.shape[2], Zeros3)
    [] k = "agent_id_grid" -> Tile(r.space.shape[1], r.space.shape[2], 0)
    [] k = "item" -> Zeros3
    [] k = "agent" -> <<-1, -1, 0, 0, 0, 0>>
SpecHi(r, cx, k) ==
  CASE k = "grid" -> Tile(r.space.shape[1], r.space.shape[2], EncBoundC(r.name, cx))
    [] k = "agent_id_grid" -> Tile(r.space.shape[1], r.space.shape[2], 1)
    [] k = "item" -> EncBoundC(r.name, cx)
    [] k = "agent" -> <<1, 1, 1, 1, 1, 1>>
SpecType(k) == CASE k = "agent" -> "CONTINUOUS" [] k = "agent_id_grid" -> "DISCRETE" [] OTHER -> "CATEGORICAL"
IntKind(dt) == dt \in {"int64", "int32", "int16", "int8", "uint8", "uint16", "uint32", "uint64"}
FloatKind(dt) == dt \in {"float64", "float32", "float16"}

SpaceFails(r) ==
  LET cx == RepCtx(r.kind_, Sp(r))
  IN Clause("C15.keys", ToSet(r.keys) = Keys(r))
     \cup UNION {Clause("C15.space",
                   /\ r.spaces[k].type = SpecType(k)
                   /\ r.spaces[k].lo = SpecLo(r, cx, k) /\ r.spaces[k].hi = SpecHi(r, cx, k)
                   \* the gym space advertises the same bounds and a dtype of the right kind
                   /\ r.gym[k].lo = SpecLo(r, cx, k) /\ r.gym[k].hi = SpecHi(r, cx, k)
                   /\ (IF k = "agent" THEN FloatKind(r.gym[k].dtype) ELSE IntKind(r.gym[k].dtype)))
                 : k \in Keys(r) \cap ToSet(r.keys)}

\* arrays of the specification; the agent array as numerators over (H-1, W-1)
SpecArray(r, cx, k) ==
  CASE k = "grid" -> GridArrayC(r.name, cx, r.st.grid)
    [] k = "agent_id_grid" -> AgentIdGrid(r.st)
    [] k = "item" -> EncC(r.name, cx, r.st.item)
    [] k = "agent" -> AgentArray(r.st)
\* every entry of a (nested) integer array within the (nested) bounds
RECURSIVE Within(_, _, _, _)
Within(x, lo, hi, depth) == \* depth = number of array dimensions
  IF depth = 0 THEN lo <= x /\ x <= hi
  ELSE DOMAIN x = DOMAIN lo /\ DOMAIN x = DOMAIN hi /\ \A a \in DOMAIN x : Within(x[a], lo[a], hi[a], depth - 1)
Dims(k) == CASE k = "grid" -> 3 [] k = "agent_id_grid" -> 2 [] OTHER -> 1
ConvFails(r) ==
  LET cx == RepCtx(r.kind_, Sp(r))
      h == r.space.shape[1]
      w == r.space.shape[2]
  IN IF r.outcome # "ok" THEN {"C15.raise"}
     ELSE UNION {
       \* the code's arrays lie inside the code's own declared space: shape, bounds, dtype kind, contains()
       Clause("C15.inside",
              IF k = "agent"
                THEN /\ r.agent_exact /\ FloatKind(r.dtypes[k]) /\ r.contains[k] /\ r.gymcontains[k]
                     /\ Abs(r.conv[k][1]) <= h - 1 /\ Abs(r.conv[k][2]) <= w - 1
                     /\ \A a \in 3..6 : r.conv[k][a] \in {0, 1}
                ELSE /\ Within(r.conv[k], r.spaces[k].lo, r.spaces[k].hi, Dims(k))
                     /\ IntKind(r.dtypes[k]) /\ r.contains[k] /\ r.gymcontains[k])
       \* and are exactly the positional encoding of the specification
       \cup Clause("C16.enc", r.conv[k] = SpecArray(r, cx, k))
       : k \in Keys(r)}

PairFails(r) ==
  LET same == r.conv1 = r.conv2
  IN Clause("C16.lossless", same <=> StateEq(r.st1, r.st2))
     \cup Clause("C16.eq", r.pyeq <=> StateEq(r.st1, r.st2))
     \cup Clause("C16.hash", r.pyeq => r.hasheq)

Fails(r) ==
  CASE r.kind = "space" -> SpaceFails(r)
    [] r.kind = "conv" -> ConvFails(r)
    [] r.kind = "pair" -> PairFails(r)
    [] OTHER -> {}
Report(r) == LET f == Fails(r) IN f = {} \/ PrintT(<<"BAD", r.id, f>>)
Init == i = 0
Next == i < Len(Recs) /\ i' = i + 1 /\ Report(Recs[i'])
Done == PrintT(<<"DONE", Len(Recs), TLCGet("distinct")>>)
=============================================================================
