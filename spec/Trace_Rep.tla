------------------------------ MODULE Trace_Rep ------------------------------
(***************************************************************************)
(* Trace validation of representation records (C15, C16).                  *)
(* kind "space": the spaces declared by make_*_representation(name, space) *)
(* kind "conv":  convert(member) with dtypes / contains() / gym spaces     *)
(* kind "pair":  two members, their arrays, python equality and hashes     *)
(***************************************************************************)
EXTENDS GVRepresentation, Json, IOUtils, TLC

Recs == ndJsonDeserialize(IOEnv.TRACE_FILE)
VARIABLE i
vars == <<i>>

Sp(r) == [shape |-> r.space.shape, types |-> ToSet(r.space.types), colors |-> ToSet(r.space.colors)]
Clause(name, ok) == IF ok THEN {} ELSE {name}
Keys(r) == IF r.kind_ = "state" THEN {"grid", "agent_id_grid", "agent", "item"} ELSE {"grid", "agent_id_grid", "item"}
Tile(h, w, v) == [a \in 1..h |-> [b \in 1..w |-> v]]
Zeros3 == <<0, 0, 0>>

\* the space the specification declares for key k
SpecLo(r, cx, k) ==
  CASE k = "grid" -> Tile(r.space.shape[1], r.space.shape[2], Zeros3)
    [] k = "agent_id_grid" -> Tile(r.space.shape[1], r.space.shape[2], 0)
    [] k = "item" -> Zeros3
    [] k = "agent" -> <<-1, -1, 0, 0, 0, 0>>
SpecHi(r, cx, k) ==
  CASE k = "grid" -> Tile(r.space.shape[1], r.space.shape[2], EncBoundC(r.name, cx))
    [] k = "agent_id_grid" -> Tile(r.space.shape[1], r.space.shape[2], 1)
    [] k = "item" -> EncBoundC(r.name, cx)
    [] k = "agent" -> <<1, 1, 1, 1, 1, 1>>
SpecType(k) == CASE k = "agent" -> "CONTINUOUS" [] k = "agent_id_grid" -> "DISCRETE" [] OTHER -> "CATEGORICAL"
IntKind(dt) == dt \in {"int64", "int32", "int16", "int8", "uint8", "uint16", "uint32", "uint64"}
FloatKind(dt) == dt \in {"float64", "float32", "float16"}

SpaceFails(r) ==
  LET cx == RepCtx(r.kind_, Sp(r))
  IN Clause("C15.keys", ToSet(r.keys) = Keys(r))
     \* the declared bounds are those of the specification (not demanded by the property: drift)
     \cup UNION {Clause("DRIFT.space",
                   /\ r.spaces[k].type = SpecType(k)
                   /\ r.spaces[k].lo = SpecLo(r, cx, k) /\ r.spaces[k].hi = SpecHi(r, cx, k))
                 : k \in Keys(r) \cap ToSet(r.keys)}
     \* the gym space advertises the bounds the representation declares, with a dtype of the right kind
     \cup UNION {Clause("C15.gym",
                   /\ r.gym[k].lo = r.spaces[k].lo /\ r.gym[k].hi = r.spaces[k].hi
                   /\ (IF r.spaces[k].type = "CONTINUOUS" THEN FloatKind(r.gym[k].dtype) ELSE IntKind(r.gym[k].dtype)))
                 : k \in Keys(r) \cap ToSet(r.keys)}

\* arrays of the specification; the agent array as numerators over (H-1, W-1)
SpecArray(r, cx, k) ==
  CASE k = "grid" -> GridArrayC(r.name, cx, r.st.grid)
    [] k = "agent_id_grid" -> AgentIdGrid(r.st)
    [] k = "item" -> EncC(r.name, cx, r.st.item)
    [] k = "agent" -> AgentArray(r.st)
\* every entry of a (nested) integer array within the (nested) bounds
RECURSIVE Within(_, _, _, _)
Within(x, lo, hi, depth) == \* depth = number of array dimensions
  IF depth = 0 THEN lo <= x /\ x <= hi
  ELSE DOMAIN x = DOMAIN lo /\ DOMAIN x = DOMAIN hi /\ \A a \in DOMAIN x : Within(x[a], lo[a], hi[a], depth - 1)
Dims(k) == CASE k = "grid" -> 3 [] k = "agent_id_grid" -> 2 [] OTHER -> 1
\* the code's own encoding table (object -> triple), read through convert()
TabFn(r) == [o \in {r.table[k][1] : k \in DOMAIN r.table} |-> (CHOOSE k \in DOMAIN r.table : r.table[k][1] = o)]
Lookup(r, o) == LET q == [t |-> o.t, s |-> o.s, c |-> o.c, in |-> <<>>]
                    ks == {k \in DOMAIN r.table : r.table[k][1].t = o.t /\ r.table[k][1].s = o.s /\ r.table[k][1].c = o.c}
                IN IF ks = {} THEN <<-1, -1, -1>> ELSE r.table[CHOOSE k \in ks : TRUE][2]
TableFails(r) ==
  IF r.table = <<>> THEN {}
  ELSE LET E == [k \in DOMAIN r.table |-> r.table[k][2]]
           vals(ch) == {E[k][ch] : k \in DOMAIN E}
           used == vals(1) \cup vals(2) \cup vals(3)
       IN \* positional: every entry is the table entry of the object in that cell; the same table everywhere
          Clause("C16.positional",
                 /\ \A q \in GPositions(r.st.grid) : r.conv.grid[q[1] + 1][q[2] + 1] = Lookup(r, Cell(r.st.grid, q))
                 /\ r.conv.item = Lookup(r, r.st.item))
          \* lossless on objects: distinct objects (type, status, colour) get distinct triples
          \cup Clause("C16.injective", \A a, b \in DOMAIN r.table : E[a] = E[b] => ObjEq(r.table[a][1], r.table[b][1]))
          \cup Clause("C16.nooverlap", r.name = "no-overlap" =>
                        \A c1, c2 \in 1..3 : c1 # c2 => vals(c1) \cap vals(c2) = {})
          \cup Clause("C16.compact", r.name = "compact" =>
                        /\ used = 0..(Cardinality(used) - 1)
                        /\ \A c1, c2 \in 1..3 : c1 # c2 => vals(c1) \cap vals(c2) = {})
          \cup Clause("C16.default", r.name = "default" =>
                        \A k \in DOMAIN r.table : E[k] = <<TypeIndex(r.table[k][1].t), r.table[k][1].s, ColorIndex(r.table[k][1].c)>>)

ConvFails(r) ==
  LET cx == RepCtx(r.kind_, Sp(r))
      h == r.space.shape[1]
      w == r.space.shape[2]
  IN IF r.outcome # "ok" THEN {"C15.raise"}
     ELSE UNION {
       \* the code's arrays lie inside the code's own declared space: shape, bounds, dtype kind, contains()
       Clause("C15.inside",
              IF k = "agent"
                THEN /\ r.agent_exact /\ FloatKind(r.dtypes[k]) /\ r.contains[k] /\ r.gymcontains[k]
                     /\ Abs(r.conv[k][1]) <= h - 1 /\ Abs(r.conv[k][2]) <= w - 1
                     /\ \A a \in 3..6 : r.conv[k][a] \in {0, 1}
                ELSE /\ Within(r.conv[k], r.spaces[k].lo, r.spaces[k].hi, Dims(k))
                     /\ IntKind(r.dtypes[k]) /\ r.contains[k] /\ r.gymcontains[k])
       \* exact agreement with the encoding of the specification: demanded for the default encoding (the index
       \* triple) and for the agent marker / pose; for no-overlap and compact only the stated properties are
       \* demanded (TableFails) and a different but equally good numbering is drift
       \cup Clause(IF r.name = "default" \/ k \in {"agent_id_grid", "agent"} THEN "C16.enc" ELSE "DRIFT.enc", r.conv[k] = SpecArray(r, cx, k))
       : k \in Keys(r)}
     \cup TableFails(r)

PairFails(r) ==
  LET same == r.conv1 = r.conv2
  IN Clause("C16.lossless", same <=> StateEq(r.st1, r.st2))
     \cup Clause("C16.eq", r.pyeq <=> StateEq(r.st1, r.st2))
     \cup Clause("C16.hash", r.pyeq => r.hasheq)

Fails(r) ==
  CASE r.kind = "space" -> SpaceFails(r)
    [] r.kind = "conv" -> ConvFails(r)
    [] r.kind = "pair" -> PairFails(r)
    [] OTHER -> {}
Report(r) == LET f == Fails(r) IN f = {} \/ PrintT(<<"BAD", r.id, f>>)
Init == i = 0
Next == i < Len(Recs) /\ i' = i + 1 /\ Report(Recs[i'])
Done == PrintT(<<"DONE", Len(Recs), TLCGet("distinct")>>)
=============================================================================
