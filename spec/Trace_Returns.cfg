INIT Init
NEXT Next
POSTCONDITION Done
CHECK_DEADLOCK FALSE
