------------------------- MODULE GVRecordingProofs -------------------------
(***************************************************************************)
(* TLAPS proof that the DataBuilder of GVRecording only ever holds a       *)
(* Data-shaped prefix (BuilderShape), for every Depth, reward set and      *)
(* discount exponent: the bounded TLC runs check it for Depth <= 5 only.   *)
(***************************************************************************)
EXTENDS GVRecording, TLAPS

ASSUME RNumsInt == RNums \subseteq Int

TypeOK == frames \in Nat /\ rews \in Seq(Int)
Inv == TypeOK /\ BuilderShape

LEMMA InitInv == Init => Inv
  BY DEF Init, Inv, TypeOK, BuilderShape

LEMMA StepInv == Inv /\ [Next]_vars => Inv'
<1> SUFFICES ASSUME Inv, [Next]_vars PROVE Inv'
  OBVIOUS
<1>1. CASE UNCHANGED vars
  BY <1>1 DEF Inv, TypeOK, BuilderShape, vars
<1>2. CASE Next /\ Stateless
  <2>1. UNCHANGED <<frames, rews>>
    BY <1>2 DEF Next, Pure, DataDirect, Record
  <2> QED BY <2>1 DEF Inv, TypeOK, BuilderShape
<1>3. CASE Next /\ ~Stateless
  <2>1. Stateful
    BY <1>3 DEF Next
  <2>2. CASE Append0
    BY <2>2 DEF Append0, Inv, TypeOK, BuilderShape
  <2>3. CASE Build
    BY <2>3 DEF Build, Inv, TypeOK, BuilderShape
  <2>4. ASSUME NEW n \in RNums, AppendStep(n) PROVE Inv'
    BY <2>4, RNumsInt DEF AppendStep, Inv, TypeOK, BuilderShape
  <2>5. ASSUME NEW k \in {"shape", "types", "colors"}, NEW v \in 1..2, SetField(k, v) PROVE Inv'
    BY <2>5 DEF SetField, Inv, TypeOK, BuilderShape
  <2>6. ASSUME NEW kind \in {"state", "observation"}, BuildSpace(kind) PROVE Inv'
    BY <2>6 DEF BuildSpace, Inv, TypeOK, BuilderShape
  <2> QED BY <2>1, <2>2, <2>3, <2>4, <2>5, <2>6 DEF Stateful
<1> QED BY <1>1, <1>2, <1>3 DEF Next

THEOREM BuilderShapeAlways == Init /\ [][Next]_vars => []BuilderShape
<1>1. Inv => BuilderShape
  BY DEF Inv
<1> QED BY InitInv, StepInv, <1>1, PTL
=============================================================================
