------------------------------ MODULE GVDesign ------------------------------
(***************************************************************************)
(* Drawing primitives (gym_gridverse/design.py): each writes factory-made  *)
(* objects into a grid and returns the list of positions it wrote.         *)
(* Modelled as <<new grid, sequence of positions>>.                        *)
(***************************************************************************)
EXTENDS GVState

RECURSIVE PutAll(_, _, _, _)
PutAll(g, ps, k, o) == IF k > Len(ps) THEN g ELSE PutAll(SetCell(g, ps[k], o), ps, k + 1, o)
Draw(g, ps, o) == <<PutAll(g, ps, 1, o), ps>>

Range(a, b) == [i \in 1..(IF b >= a THEN b - a + 1 ELSE 0) |-> a + i - 1]
\* [Position(y, x) for y in ys for x in xs]
Cartesian(ys, xs) == [i \in 1..(Len(ys) * Len(xs)) |-> <<ys[((i - 1) \div Len(xs)) + 1], xs[((i - 1) % Len(xs)) + 1]>>]
DrawCartesianProduct(g, ys, xs, o) == Draw(g, Cartesian(ys, xs), o)
DrawLineHorizontal(g, y, xs, o) == DrawCartesianProduct(g, <<y>>, xs, o)
DrawLineVertical(g, ys, x, o) == DrawCartesianProduct(g, ys, <<x>>, o)

\* Area.positions('all' | 'border') in the order of the code
AllSeq(A) == Cartesian(Range(AYMin(A), AYMax(A)), Range(AXMin(A), AXMax(A)))
BorderSeq(A) ==
  Cartesian(<<AYMin(A), AYMax(A)>>, Range(AXMin(A), AXMax(A)))
    \o Cartesian(Range(AYMin(A) + 1, AYMax(A) - 1), <<AXMin(A), AXMax(A)>>)
DrawArea(g, A, o, fill) == Draw(g, IF fill THEN AllSeq(A) ELSE BorderSeq(A), o)
DrawRoom(g, A, o) == DrawArea(g, A, o, FALSE)
DrawWallBoundary(g) == DrawRoom(g, GArea(g), Wall)

\* draw_room_grid: horizontal lines at ys over the whole x range, vertical lines at xs on the remaining rows
SeqMin(s) == CHOOSE m \in ToSet(s) : \A x \in ToSet(s) : m <= x
SeqMax(s) == CHOOSE m \in ToSet(s) : \A x \in ToSet(s) : m >= x
DrawRoomGrid(g, ys, xs, o) ==
  LET yr == Range(SeqMin(ys), SeqMax(ys))
      xr == Range(SeqMin(xs), SeqMax(xs))
      first == Cartesian(ys, xr)
      rest == Cartesian(SelectSeq(yr, LAMBDA y : y \notin ToSet(ys)), xs)
  IN Draw(g, first \o rest, o)

\* what the drawing means as sets (order-free statements)
BorderIsBorder(A) == ToSet(BorderSeq(A)) = BorderPositions(A)
AllIsAll(A) == ToSet(AllSeq(A)) = Positions(A)
=============================================================================
