----------------------------- MODULE Trace_Rays -----------------------------
(***************************************************************************)
(* Trace validation of rays computed by the implementation (C19).          *)
(* record: [id, kind ("fan" | "ray" | "same"), area, origin, rays, ...]    *)
(***************************************************************************)
EXTENDS GVRays, Json, IOUtils, TLC, Sequences

Recs == ndJsonDeserialize(IOEnv.TRACE_FILE)
VARIABLE i
vars == <<i>>

RayFailsAll(r) == UNION {RayFails(r.rays[k], r.origin, r.area) : k \in DOMAIN r.rays}
Fails(r) ==
  CASE r.kind = "fan" ->
         RayFailsAll(r) \cup (IF FanCovers(r.rays, r.area) THEN {} ELSE {"coverage"})
    [] r.kind = "ray" -> RayFailsAll(r)
    \* determinism / caching: the answer to a repeated query equals the first answer and the uncached answer
    [] r.kind = "same" -> (IF r.rays = r.first THEN {} ELSE {"changed"}) \cup (IF r.rays = r.uncached THEN {} ELSE {"cache"})
    [] OTHER -> {}
Report(r) == LET f == Fails(r) IN f = {} \/ PrintT(<<"BAD", r.id, f>>)
Init == i = 0
Next == i < Len(Recs) /\ i' = i + 1 /\ Report(Recs[i'])
Done == PrintT(<<"DONE", Len(Recs), TLCGet("distinct")>>)
=============================================================================
