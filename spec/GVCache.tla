------------------------------ MODULE GVCache ------------------------------
(***************************************************************************)
(* A least-recently-used memo table in front of a pure function, as used   *)
(* for ray fans (functools.lru_cache, capacity 128) and for the            *)
(* shortest-path table of getting_closer_shortest_path (capacity 10).      *)
(* The point of the model: whatever the history of hits, misses and        *)
(* evictions, the answer to a query is the function's value; the replay    *)
(* harness drives the real cached functions along behaviours of this model *)
(* and compares answers and hit/miss counters after every query.           *)
(***************************************************************************)
EXTENDS Integers, Sequences, FiniteSets, TLC

CONSTANTS Cap,     \* capacity
          NKeys,   \* queries range over 1..NKeys
          Depth    \* length of emitted behaviours

VARIABLES cache,   \* sequence of [k, v], least recently used first
          hist,    \* sequence of [k, hit, ans]
          hits, misses

vars == <<cache, hist, hits, misses>>
F(k) == (k * 7) % 5          \* the pure function being memoised (abstract)
Keys == 1..NKeys
IndexOfKey(k) == IF \E i \in DOMAIN cache : cache[i].k = k THEN CHOOSE i \in DOMAIN cache : cache[i].k = k ELSE 0
Remove(s, i) == SubSeq(s, 1, i - 1) \o SubSeq(s, i + 1, Len(s))

Init == cache = <<>> /\ hist = <<>> /\ hits = 0 /\ misses = 0
Query(k) ==
  LET i == IndexOfKey(k)
  IN IF i > 0
       THEN /\ cache' = Append(Remove(cache, i), cache[i])
            /\ hist' = Append(hist, [k |-> k, hit |-> TRUE, ans |-> cache[i].v])
            /\ hits' = hits + 1 /\ misses' = misses
       ELSE /\ cache' = Append(IF Len(cache) = Cap THEN Tail(cache) ELSE cache, [k |-> k, v |-> F(k)])
            /\ hist' = Append(hist, [k |-> k, hit |-> FALSE, ans |-> F(k)])
            /\ misses' = misses + 1 /\ hits' = hits
Next == Len(hist) < Depth /\ \E k \in Keys : Query(k)

InvBounded == Len(cache) <= Cap
InvNoDup == \A i, j \in DOMAIN cache : i # j => cache[i].k # cache[j].k
InvAnswers == \A i \in DOMAIN hist : hist[i].ans = F(hist[i].k)
InvCounters == hits + misses = Len(hist)
\* emit complete behaviours for the replay harness
Emit == Len(hist) = Depth => PrintT(<<"BEH", [i \in DOMAIN hist |-> <<hist[i].k, hist[i].hit>>]>>)
=============================================================================
