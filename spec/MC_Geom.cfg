INIT Init
NEXT Next
CONSTANTS
  B = 2
  MaxDim = 3
INVARIANT InvGroup
INVARIANT InvRot
INVARIANT InvTransform
INVARIANT InvAreas
INVARIANT InvNextPosition
INVARIANT InvBoundary
INVARIANT InvGridRotation
CHECK_DEADLOCK FALSE
