----------------------------- MODULE MC_SymLink -----------------------------
(***************************************************************************)
(* Ties the flat, typed companion GVSym (checked with Apalache for every   *)
(* grid content) to the main specification: from every state of a small   *)
(* family, GVSym!Next and Step of the key-door composition commute with    *)
(* the flattening.  Checked with TLC.                                      *)
(***************************************************************************)
EXTENDS GVTransitions

CONSTANTS H, W
VARIABLES cell, pos, ori, held, lastAction, st
Sym == INSTANCE GVSym
vars == <<cell, pos, ori, held, lastAction, st>>

KindOf(o) == IF o.t = "NoneGridObject" THEN 0 ELSE 100 * TypeIndex(o.t) + 10 * o.s + ColorIndex(o.c)
FlatCell(s) == [c \in Sym!Cells |-> KindOf(Cell(s.grid, c))]
K == <<[name |-> "move_agent"], [name |-> "turn_agent"], [name |-> "actuate_door"], [name |-> "pickndrop"]>>
LinkAlpha ==
  {Floor, Wall, Exit("NONE"), Key("RED"), Key("BLUE"), Telepod("RED"), Beacon("GREEN")}
    \cup {Door(s, c) : s \in 0..2, c \in {"RED", "BLUE", "NONE"}}
LinkHeld == {NoneObj, Key("RED"), Key("BLUE"), Wall, Door(2, "RED")}

Init ==
  /\ st \in {St(g, p, o, it) : g \in [1..H -> [1..W -> LinkAlpha]], p \in Sym!Cells, o \in Oris, it \in LinkHeld}
  /\ cell = FlatCell(st) /\ pos = st.pos /\ ori = OriIdx(st.ori) /\ held = KindOf(st.item) /\ lastAction = 0
Next ==
  /\ lastAction = 0 /\ Len(<<>>) = 0
  /\ Sym!Next
  /\ st' \in Step(K, st, ActionSeq[lastAction' + 1])
Depth1 == TLCGet("level") <= 2
Link == cell = FlatCell(st) /\ pos = st.pos /\ ori = OriIdx(st.ori) /\ held = KindOf(st.item)
SymInv == Sym!TypeOK
=============================================================================
