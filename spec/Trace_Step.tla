----------------------------- MODULE Trace_Step -----------------------------
(***************************************************************************)
(* Trace validation of transition records produced by the implementation.  *)
(* One record = one input state and composition, with the outcome of every *)
(* action (the full support of the random outcomes when the harness        *)
(* enumerated it).  Every record is checked against the operational        *)
(* specification (Step) and against the declarative rules of C01, C08-C12. *)
(* Output: one line <<"BAD", id, action, {clauses}>> per failing record    *)
(* and <<"DONE", n>> at the end.                                           *)
(***************************************************************************)
EXTENDS GVFamilies, Json, IOUtils

Recs == ndJsonDeserialize(IOEnv.TRACE_FILE)
VARIABLE i
vars == <<i>>

Space(r) == [shape |-> r.space.shape, types |-> ToSet(r.space.types), colors |-> ToSet(r.space.colors)]

Clause(name, ok) == IF ok THEN {} ELSE {name}
\* outcomes of an action; `same` abbreviates "the only outcome is the input state"
SupSeq(r, act) == IF act.same THEN <<r.st>> ELSE act.support
\* clause evaluated only when the record asks for its family (r.want)
W(r, fam, name, ok) == IF fam \in ToSet(r.want) /\ ~ok THEN {name} ELSE {}

FamilyFails(r) ==
  CASE r.fam = "cell" ->
         Clause("C01.family",
                /\ InCellFamily(r.st)
                /\ CellFamilyIndex(r.st) = r.fi
                /\ CellFamilySize(GHeight(r.st.grid), GWidth(r.st.grid)) = r.fsize)
    [] r.fam = "local" -> Clause("C01.family", InLocalFamily(r.st, r.k))
    [] OTHER -> {}

RewardFails(r, act, k) ==
  LET s == SupSeq(r, act)[k]
      rc == r.rew[1]
  IN IF ~InGrid(s.grid, s.pos) \/ ~RewardPre(rc, r.st, s) THEN {}
     ELSE W(r, "C01", "C01.rtype", act.rtype[k] = "float" /\ act.rfinite[k])
          \cup W(r, "C12", "C12.reward",
                 \/ (~AgentOK(r.st) /\ act.a \notin MoveActions)  \* outside the domain of bump_into_wall
                 \/ (act.rexact[k] /\ act.r[k] = Reward(rc, r.st, act.a, s)))
TermFails(r, act, k) ==
  LET s == SupSeq(r, act)[k]
  IN W(r, "C01", "C01.dtype", act.dtype[k] = "bool")
     \cup W(r, "C12", "C12.term",
            \/ ~InGrid(s.grid, s.pos)
            \/ (~AgentOK(r.st) /\ act.a \notin MoveActions)
            \/ act.done[k] = Terminates(r.term[1], r.st, act.a, s))

ActFails(r, act) ==
  LET sp == Space(r)
      sup == ToSet(SupSeq(r, act))
      F == Flags(r.comps)
      shaped == F.shaped
      spec == Step(r.comps, r.st, act.a)
  IN IF act.outcome # "ok" THEN {"C01.raise"}
     ELSE
       W(r, "C01", "C01.closure", \A s \in sup : InStateSpace(sp, s))
       \cup W(r, "C08", "C08.kin", shaped => \A s \in sup : KinematicsRule(F, r.st, act.a, s))
       \cup W(r, "C08", "C08.agentok", AgentOK(r.st) => \A s \in sup : AgentOK(s))
       \cup W(r, "C09", "C09.cons", shaped => \A s \in sup : ConservationRule(F, r.st, act.a, s))
       \cup W(r, "C10", "C10.door", shaped => \A s \in sup : DoorRule(F, r.st, act.a, s))
       \cup W(r, "C11", "C11.obst",
              (Len(r.comps) = 1 /\ r.comps[1].name = "move_obstacles") =>
                 /\ \A s \in sup :
                      /\ s.pos = r.st.pos /\ s.ori = r.st.ori /\ s.item = r.st.item
                      /\ IF Cardinality(Obstacles(r.st.grid)) <= 4
                           THEN ObstacleRule(r.st, s) ELSE ObstacleRuleWeak(r.st, s)
                 /\ (act.full /\ Cardinality(Obstacles(r.st.grid)) <= 4 =>
                       \E ps \in Perms(Obstacles(r.st.grid)) :
                          sup = MoveObstaclesInOrder(r.st, ps)))
       \cup W(r, "C11", "C11.tele",
              (Len(r.comps) = 1 /\ r.comps[1].name = "teleport") =>
                 /\ \A s \in sup : TeleportRule(r.st, s)
                 /\ (act.full => sup = Teleport(r.st)))
       \* chains containing the stochastic components: the outcomes are those of the chain for SOME processing
       \* order of the obstacles (all of them when the harness enumerated every random outcome)
       \cup W(r, "C11", "C11.chain",
              (Len(r.comps) > 1 /\ (F.obst \/ F.tele) /\ CountOf(r.comps, "move_obstacles") <= 1
                 /\ Cardinality(Obstacles(r.st.grid)) <= 3) =>
                 \E ps \in Perms(ObstacleSources(r.st, act.a)) :
                    LET so == StepInOrder(r.comps, r.st, act.a, ps)
                    IN sup \subseteq so /\ (act.full => sup = so))
       \* C17: the step is a step of the described environment (order-free for the obstacles)
       \cup W(r, "C17", "C17.step",
              IF F.obst /\ CountOf(r.comps, "move_obstacles") <= 1 /\ Cardinality(Obstacles(r.st.grid)) <= 3
                THEN \E ps \in Perms(ObstacleSources(r.st, act.a)) : sup \subseteq StepInOrder(r.comps, r.st, act.a, ps)
                ELSE F.obst \/ sup \subseteq spec)
       \cup W(r, "DRIFT", "DRIFT.step", sup \subseteq spec /\ (act.full => sup = spec))
       \cup (IF r.rew = <<>> THEN {}
             ELSE UNION {RewardFails(r, act, k) : k \in DOMAIN SupSeq(r, act)})
       \cup (IF r.term = <<>> THEN {}
             ELSE UNION {TermFails(r, act, k) : k \in DOMAIN SupSeq(r, act)})

RecFails(r) ==
  Clause("C01.pre", InStateSpace(Space(r), r.st))
  \cup FamilyFails(r)

Report(r) ==
  /\ (RecFails(r) = {} \/ PrintT(<<"BAD", r.id, "-", RecFails(r)>>))
  /\ \A k \in DOMAIN r.acts :
       LET f == ActFails(r, r.acts[k])
       IN f = {} \/ PrintT(<<"BAD", r.id, r.acts[k].a, f>>)

Init == i = 0
Next == i < Len(Recs) /\ i' = i + 1 /\ Report(Recs[i'])
Spec == Init /\ [][Next]_vars
Done == PrintT(<<"DONE", Len(Recs), TLCGet("distinct")>>)
=============================================================================
