INIT Init
NEXT Next
INVARIANT InvClosure
INVARIANT InvAgentOK
INVARIANT InvInventory
INVARIANT InvDoorHistory
INVARIANT InvBeyondWall
INVARIANT InvDoorsStayDoors
CHECK_DEADLOCK FALSE
