--------------------------- MODULE GVCacheProofs ---------------------------
(***************************************************************************)
(* TLAPS proof that the memo table of GVCache always answers with the      *)
(* function's value (InvAnswers), for every capacity, key range and depth: *)
(* whatever the history of hits, misses and evictions.                     *)
(***************************************************************************)
EXTENDS GVCache, TLAPS, SequenceTheorems

ASSUME ConstAssump == Cap \in Nat \ {0} /\ NKeys \in Nat /\ Depth \in Nat

Entry == [k : Keys, v : Int]
HistEntry == [k : Keys, hit : BOOLEAN, ans : Int]
TypeOK == cache \in Seq(Entry) /\ hist \in Seq(HistEntry) /\ hits \in Nat /\ misses \in Nat
Sound == \A i \in 1..Len(cache) : cache[i].v = F(cache[i].k)
Inv == TypeOK /\ Sound /\ InvAnswers

LEMMA FType == \A k \in Keys : F(k) \in Int
  BY DEF F, Keys

LEMMA InitInv == Init => Inv
  BY DEF Init, Inv, TypeOK, Sound, InvAnswers

LEMMA RemoveProps ==
  ASSUME NEW S, NEW s \in Seq(S), NEW i \in 1..Len(s)
  PROVE /\ Remove(s, i) \in Seq(S)
        /\ Len(Remove(s, i)) = Len(s) - 1
        /\ \A j \in 1..(Len(s) - 1) : Remove(s, i)[j] = IF j < i THEN s[j] ELSE s[j + 1]
<1> DEFINE a == SubSeq(s, 1, i - 1)
           b == SubSeq(s, i + 1, Len(s))
<1>1. a \in Seq(S) /\ Len(a) = i - 1 /\ \A j \in 1..(i - 1) : a[j] = s[j]
  BY SubSeqProperties
<1>2. b \in Seq(S) /\ Len(b) = Len(s) - i /\ \A j \in 1..(Len(s) - i) : b[j] = s[i + j]
  BY SubSeqProperties
<1>3. a \o b \in Seq(S) /\ Len(a \o b) = Len(s) - 1
      /\ \A j \in 1..(Len(s) - 1) : (a \o b)[j] = IF j <= i - 1 THEN a[j] ELSE b[j - (i - 1)]
  BY <1>1, <1>2, ConcatProperties
<1> QED BY <1>1, <1>2, <1>3 DEF Remove

LEMMA QueryInv ==
  ASSUME Inv, NEW k \in Keys, Query(k)
  PROVE Inv'
<1> DEFINE i == IndexOfKey(k)
<1> USE DEF Inv, TypeOK
<1>0. F(k) \in Int
  BY FType
<1>1. CASE i > 0
  <2>1. i \in 1..Len(cache) /\ cache[i].k = k
    BY <1>1 DEF IndexOfKey
  <2>2. cache[i] \in Entry /\ cache[i].v = F(k)
    BY <2>1 DEF Sound
  <2>3. /\ Remove(cache, i) \in Seq(Entry)
        /\ Len(Remove(cache, i)) = Len(cache) - 1
        /\ \A j \in 1..(Len(cache) - 1) : Remove(cache, i)[j] = IF j < i THEN cache[j] ELSE cache[j + 1]
    BY <2>1, RemoveProps
  <2>4. cache' = Append(Remove(cache, i), cache[i])
        /\ hist' = Append(hist, [k |-> k, hit |-> TRUE, ans |-> cache[i].v])
        /\ hits' = hits + 1 /\ misses' = misses
    BY <1>1 DEF Query
  <2> DEFINE r == Remove(cache, i)
  <2>5a. cache' \in Seq(Entry) /\ Len(cache') = Len(r) + 1
         /\ (\A j \in 1..Len(r) : cache'[j] = r[j]) /\ cache'[Len(r) + 1] = cache[i]
    BY <2>2, <2>3, <2>4, AppendProperties
  <2>5. cache' \in Seq(Entry) /\ Len(cache') = Len(cache)
        /\ \A j \in 1..Len(cache) : cache'[j] = IF j = Len(cache) THEN cache[i]
                                                ELSE IF j < i THEN cache[j] ELSE cache[j + 1]
    <3>1. Len(r) = Len(cache) - 1 /\ Len(cache) \in Nat /\ Len(cache) >= 1
      BY <2>1, <2>3, LenProperties
    <3>2. \A j \in 1..(Len(cache) - 1) : cache'[j] = IF j < i THEN cache[j] ELSE cache[j + 1]
      BY <2>3, <2>5a, <3>1
    <3> QED BY <2>5a, <3>1, <3>2
  <2>6. Sound'
    BY <2>1, <2>5 DEF Sound
  <2>7. hist' \in Seq(HistEntry) /\ InvAnswers'
    <3>1. [k |-> k, hit |-> TRUE, ans |-> cache[i].v] \in HistEntry
      BY <2>2 DEF HistEntry, Entry
    <3> QED BY <2>2, <2>4, <3>1, AppendProperties DEF InvAnswers
  <2> QED BY <2>4, <2>5, <2>6, <2>7
<1>2. CASE ~(i > 0)
  <2> DEFINE base == IF Len(cache) = Cap THEN Tail(cache) ELSE cache
             e == [k |-> k, v |-> F(k)]
  <2>1. cache' = Append(base, e)
        /\ hist' = Append(hist, [k |-> k, hit |-> FALSE, ans |-> F(k)])
        /\ misses' = misses + 1 /\ hits' = hits
    BY <1>2 DEF Query
  <2>2. base \in Seq(Entry) /\ \A j \in 1..Len(base) : \E m \in 1..Len(cache) : base[j] = cache[m]
    <3>1. CASE Len(cache) = Cap
      <4>1. cache # << >>
        BY <3>1, ConstAssump, EmptySeq
      <4> QED BY <3>1, <4>1, HeadTailProperties
    <3>2. CASE Len(cache) # Cap
      BY <3>2
    <3> QED BY <3>1, <3>2
  <2>3. e \in Entry
    BY <1>0 DEF Entry
  <2>4. cache' \in Seq(Entry) /\ Len(cache') = Len(base) + 1
        /\ \A j \in 1..Len(base) : cache'[j] = base[j]
        /\ cache'[Len(base) + 1] = e
    BY <2>1, <2>2, <2>3, AppendProperties
  <2>5. Sound'
    <3>0. Len(base) \in Nat
      BY <2>2, LenProperties
    <3> SUFFICES ASSUME NEW j \in 1..Len(cache') PROVE cache'[j].v = F(cache'[j].k)
      BY DEF Sound
    <3>1. CASE j \in 1..Len(base)
      BY <3>1, <2>2, <2>4 DEF Sound
    <3>2. CASE j = Len(base) + 1
      <4>1. Append(base, e)[Len(base) + 1] = e
        BY <2>2, <2>3, AppendProperties
      <4>2. cache'[j] = e
        BY <4>1, <3>2, <2>1
      <4>3. e.k = k /\ e.v = F(k)
        OBVIOUS
      <4> QED BY <4>2, <4>3
    <3> QED BY <2>4, <3>0, <3>1, <3>2
  <2>6. hist' \in Seq(HistEntry) /\ InvAnswers'
    <3>1. [k |-> k, hit |-> FALSE, ans |-> F(k)] \in HistEntry
      BY <1>0 DEF HistEntry
    <3> QED BY <2>1, <3>1, AppendProperties DEF InvAnswers
  <2> QED BY <2>1, <2>4, <2>5, <2>6
<1> QED BY <1>1, <1>2

THEOREM AnswersAlways == Init /\ [][Next]_vars => []InvAnswers
<1>1. Inv /\ [Next]_vars => Inv'
  <2> SUFFICES ASSUME Inv, [Next]_vars PROVE Inv'
    OBVIOUS
  <2>1. CASE UNCHANGED vars
    BY <2>1 DEF Inv, TypeOK, Sound, InvAnswers, vars
  <2>2. CASE Next
    BY <2>2, QueryInv DEF Next
  <2> QED BY <2>1, <2>2
<1>2. Inv => InvAnswers
  BY DEF Inv
<1> QED BY InitInv, <1>1, <1>2, PTL
=============================================================================
