--------------------------- MODULE GVConfigTable ---------------------------
(***************************************************************************)
(* Prints the registry table of GVConfig (required / optional parameters   *)
(* per registry and component name) for the harness, which compares it     *)
(* with the signatures of the registered functions and uses it to assemble *)
(* environments by hand (checks/c17.py).  Run with GVConfig.cfg.           *)
(***************************************************************************)
EXTENDS GVConfig
ASSUME PrintT(<<"TABLE", [k \in DOMAIN Registry |-> [n \in DOMAIN Registry[k] |-> <<Registry[k][n].req, Registry[k][n].opt>>]]>>)
=============================================================================
