---------------------------- MODULE GVVisibility ----------------------------
(***************************************************************************)
(* Visibility functions (envs/visibility_functions.py) on a view grid `g`  *)
(* with the agent at `p`; a visibility mask is the set of visible cells.   *)
(* Followed by the declarative predicates of C06.                          *)
(***************************************************************************)
EXTENDS GVState, GVRays

Transparent(g, c) == ~BlocksVision(Cell(g, c))

FullyTransparent(g, p) == GPositions(g)

\* partially_occluded: two flood fills, towards front-left and front-right
NextFL(c) == {<<c[1] - 1, c[2]>>, <<c[1], c[2] - 1>>, <<c[1] - 1, c[2] - 1>>}
NextFR(c) == {<<c[1] - 1, c[2]>>, <<c[1], c[2] + 1>>, <<c[1] - 1, c[2] + 1>>}
RECURSIVE Flood(_, _, _, _)
\* least set containing `seen` and the in-grid successors of its transparent members
Flood(g, seen, frontier, left) ==
  IF frontier = {} THEN seen
  ELSE LET new == {q \in UNION {IF left THEN NextFL(c) ELSE NextFR(c) :
                                  c \in {d \in frontier : Transparent(g, d)}} :
                     InGrid(g, q) /\ q \notin seen}
       IN Flood(g, seen \cup new, new, left)
PartiallyOccludedPre(g, p) == p[1] = GHeight(g) - 1 /\ InGrid(g, p)
PartiallyOccluded(g, p) == Flood(g, {p}, {p}, TRUE) \cup Flood(g, {p}, {p}, FALSE)

\* raytracing with a given fan of rays: a cell is visible iff some ray reaches it lit
LitPrefix(g, ray, k) == \A j \in 1..(k - 1) : Transparent(g, ray[j])
Raytracing(g, fan) ==
  {c \in GPositions(g) : \E r \in DOMAIN fan : \E k \in DOMAIN fan[r] : fan[r][k] = c /\ LitPrefix(g, fan[r], k)}
\* ray counts and the thresholded variants (parameters absolute_counts, threshold = tn / td of the registry entry)
RaysThrough(fan, c) == {r \in DOMAIN fan : \E k \in DOMAIN fan[r] : fan[r][k] = c}
LitRaysThrough(g, fan, c) == {r \in DOMAIN fan : \E k \in DOMAIN fan[r] : fan[r][k] = c /\ LitPrefix(g, fan[r], k)}
RaytracingThr(g, fan, abs, tn, td) ==
  {c \in GPositions(g) :
     LET num == Cardinality(LitRaysThrough(g, fan, c))
         den == Cardinality(RaysThrough(fan, c))
     IN IF abs THEN num * td >= tn ELSE den > 0 /\ num * td >= tn * den}
\* cells that every ray through them reaches lit (shown with probability one)
AlwaysLit(g, fan) ==
  {c \in GPositions(g) :
     /\ \E r \in DOMAIN fan : \E k \in DOMAIN fan[r] : fan[r][k] = c
     /\ \A r \in DOMAIN fan : \A k \in DOMAIN fan[r] : fan[r][k] = c => LitPrefix(g, fan[r], k)}
StochasticBounds(g, fan, shown) == AlwaysLit(g, fan) \subseteq shown /\ shown \subseteq Raytracing(g, fan)

(***************************************************************************)
(* Declarative predicates (C06), on a mask V for view g with agent at p    *)
(***************************************************************************)
SelfVisible(V, p) == p \in V
Neigh8(c) == {<<c[1] + dy, c[2] + dx>> : dy \in {-1, 0, 1}, dx \in {-1, 0, 1}} \ {c}
RECURSIVE ChainClosure(_, _, _, _)
\* cells linked to the agent by a chain of adjacent visible cells whose
\* members before the last are transparent
ChainClosure(g, V, seen, frontier) ==
  IF frontier = {} THEN seen
  ELSE LET new == {q \in UNION {Neigh8(c) : c \in {d \in frontier : Transparent(g, d)}} :
                     q \in V /\ q \notin seen}
       IN ChainClosure(g, V, seen \cup new, new)
ChainConnected(g, V, p) == V \subseteq ChainClosure(g, V, {p}, {p})
=============================================================================
