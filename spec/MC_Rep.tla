------------------------------- MODULE MC_Rep -------------------------------
(***************************************************************************)
(* C15 / C16 on the specification, over every subset of the registered     *)
(* object types and every colour subset, for the three encodings and both  *)
(* kinds (state, observation).                                             *)
(***************************************************************************)
EXTENDS GVRepresentation

VARIABLES types, colors, kind
vars == <<types, colors, kind>>
sp == [shape |-> <<2, 2>>, types |-> types, colors |-> colors]

StateTypes == {"Floor", "Wall", "Exit", "Door", "Key", "MovingObstacle", "Telepod", "Beacon"}
Init == types = {} /\ kind \in {"state", "observation"} /\ colors \in SUBSET RealColors
Next ==
  /\ types = {}
  /\ types' \in (SUBSET (IF kind = "state" THEN StateTypes ELSE StateTypes \cup {"Box"})) \ {{}}
  /\ UNCHANGED <<colors, kind>>
Active == types # {}

InvInside ==
  Active => \A n \in RepNames : LET cx == RepCtx(kind, sp) IN \A o \in SpaceObjects(kind, sp) : EncInsideC(n, cx, o)
InvPose == \A h \in 2..6 : \A w \in 2..6 : \A p \in Positions(<<<<0, h - 1>>, <<0, w - 1>>>>) : PoseInside(h, w, p)
InvInjective == Active => \A n \in RepNames : Injective(n, kind, sp)
InvDefaultIsTriple ==
  Active => \A o \in SpaceObjects(kind, sp) : Enc("default", kind, sp, o) = <<TypeIndex(o.t), o.s, ColorIndex(o.c)>>
InvNoOverlap == Active => NoOverlapDisjoint(kind, sp)
InvCompact == Active => CompactConsecutive(kind, sp)
=============================================================================
