-------------------------- MODULE GVRepresentation --------------------------
(***************************************************************************)
(* Numeric representations (representations/*.py): the three grid-object   *)
(* encodings (default, no-overlap, compact), their declared spaces, and    *)
(* the dictionary representations of states and observations.              *)
(*                                                                         *)
(* space: [shape, types (set of names), colors (set of names)]             *)
(* kind:  "state" | "observation"                                          *)
(***************************************************************************)
EXTENDS GVState

RepNames == {"default", "no-overlap", "compact"}

\* types the encoding has to cover: the declared ones, the empty hand, and Hidden for observations
RepTypes(kind, sp) ==
  sp.types \cup {"NoneGridObject"} \cup (IF kind = "observation" THEN {"Hidden"} ELSE {})
RepColors(sp) == sp.colors \cup {"NONE"}
SetMax(S) == CHOOSE m \in S : \A x \in S : x <= m
MaxType(kind, sp) == SetMax({TypeIndex(t) : t \in RepTypes(kind, sp)})
MaxStates(kind, sp) == SetMax({NumStates(t) : t \in RepTypes(kind, sp)})   \* num_states, not num_states - 1 (as in the code)
MaxColor(sp) == SetMax({ColorIndex(c) : c \in RepColors(sp)})

\* objects a cell / the hand may hold in a member of the space
ObjectsOfType(t, cs) ==
  {Obj(t, s, c) : s \in 0..(NumStates(t) - 1), c \in (IF t \in ColoredTypes THEN cs ELSE {"NONE"})}
SpaceObjects(kind, sp) == UNION {ObjectsOfType(t, RepColors(sp)) : t \in RepTypes(kind, sp)}
CellObjects(kind, sp) == UNION {ObjectsOfType(t, RepColors(sp)) : t \in sp.types \cup (IF kind = "observation" THEN {"Hidden"} ELSE {})}
ItemObjects(kind, sp) == UNION {ObjectsOfType(t, RepColors(sp)) : t \in sp.types \cup {"NoneGridObject"}}

\* compact maps: consecutive indices, types first, then every (type, status), then colours
SortedTypes(kind, sp) == SelectSeq(TypeSeq, LAMBDA t : t \in RepTypes(kind, sp))
SortedColors(sp) == SelectSeq(ColorSeq, LAMBDA c : c \in RepColors(sp))
PosIn(seq, x) == CHOOSE i \in DOMAIN seq : seq[i] = x
RECURSIVE StatesBefore(_, _)
StatesBefore(ts, k) == IF k = 0 THEN 0 ELSE NumStates(ts[k]) + StatesBefore(ts, k - 1)

\* everything an encoding needs to know about the space, computed once
RepCtx(kind, sp) ==
  LET ts == SortedTypes(kind, sp)
      cs == SortedColors(sp)
      nT == Len(ts)
      nS == StatesBefore(ts, nT)
  IN [maxT |-> MaxType(kind, sp), maxS |-> MaxStates(kind, sp), maxC |-> MaxColor(sp),
      nT |-> nT, nS |-> nS, nC |-> Len(cs),
      tmap |-> [t \in RepTypes(kind, sp) |-> PosIn(ts, t) - 1],
      sbase |-> [t \in RepTypes(kind, sp) |-> nT + StatesBefore(ts, PosIn(ts, t) - 1)],
      cmap |-> [c \in RepColors(sp) |-> nT + nS + PosIn(cs, c) - 1],
      tidx |-> [t \in Types |-> TypeIndex(t)], cidx |-> [c \in Colors |-> ColorIndex(c)]]

\* the encoding of one object: <<type channel, status channel, colour channel>>
EncC(name, cx, o) ==
  CASE name = "default" -> <<cx.tidx[o.t], o.s, cx.cidx[o.c]>>
    [] name = "no-overlap" -> <<cx.tidx[o.t], cx.maxT + o.s + 1, cx.maxT + cx.maxS + cx.cidx[o.c] + 2>>
    [] name = "compact" -> <<cx.tmap[o.t], cx.sbase[o.t] + o.s, cx.cmap[o.c]>>
\* declared upper bounds of the three channels (lower bounds are 0)
EncBoundC(name, cx) ==
  CASE name = "default" -> <<cx.maxT, cx.maxS, cx.maxC>>
    [] name = "no-overlap" -> <<cx.maxT, cx.maxT + cx.maxS + 1, cx.maxT + cx.maxS + cx.maxC + 2>>
    [] name = "compact" -> <<cx.nT - 1, cx.nT + cx.nS - 1, cx.nT + cx.nS + cx.nC - 1>>
Enc(name, kind, sp, o) == EncC(name, RepCtx(kind, sp), o)
EncBound(name, kind, sp) == EncBoundC(name, RepCtx(kind, sp))

\* arrays of a state / observation --------------------------------------------
GridArrayC(name, cx, g) == [i \in 1..GHeight(g) |-> [j \in 1..GWidth(g) |-> EncC(name, cx, g[i][j])]]
GridArray(name, kind, sp, g) == GridArrayC(name, RepCtx(kind, sp), g)
AgentIdGrid(st) ==
  [i \in 1..GHeight(st.grid) |-> [j \in 1..GWidth(st.grid) |-> IF <<i - 1, j - 1>> = st.pos THEN 1 ELSE 0]]
\* the normalised pose as exact numerators: y' = (2y - H + 1) / (H - 1); heading one-hot by enum value
AgentArray(st) ==
  <<2 * st.pos[1] - GHeight(st.grid) + 1, 2 * st.pos[2] - GWidth(st.grid) + 1>>
    \o [k \in 1..4 |-> IF OriEnumValue(st.ori) = k - 1 THEN 1 ELSE 0]
ItemArray(name, kind, sp, st) == Enc(name, kind, sp, st.item)

\* C15: everything lies inside the declared space
EncInsideC(name, cx, o) ==
  \A ch \in 1..3 : 0 <= EncC(name, cx, o)[ch] /\ EncC(name, cx, o)[ch] <= EncBoundC(name, cx)[ch]
EncInside(name, kind, sp, o) == EncInsideC(name, RepCtx(kind, sp), o)
PoseInside(h, w, p) == Abs(2 * p[1] - h + 1) <= h - 1 /\ Abs(2 * p[2] - w + 1) <= w - 1

\* C16: faithful encodings (E is the table object -> encoding)
EncTable(name, kind, sp) ==
  LET cx == RepCtx(kind, sp) IN [o \in SpaceObjects(kind, sp) |-> EncC(name, cx, o)]
InjectiveT(E) == \A a, b \in DOMAIN E : E[a] = E[b] => a = b
ChannelValuesT(E, ch) == {E[o][ch] : o \in DOMAIN E}
DisjointChannelsT(E) ==
  \A c1, c2 \in 1..3 : c1 # c2 => ChannelValuesT(E, c1) \cap ChannelValuesT(E, c2) = {}
ConsecutiveT(E) ==
  LET used == UNION {ChannelValuesT(E, ch) : ch \in 1..3} IN used = 0..(Cardinality(used) - 1)
Injective(name, kind, sp) == InjectiveT(EncTable(name, kind, sp))
NoOverlapDisjoint(kind, sp) == DisjointChannelsT(EncTable("no-overlap", kind, sp))
CompactConsecutive(kind, sp) ==
  LET E == EncTable("compact", kind, sp) IN ConsecutiveT(E) /\ DisjointChannelsT(E)

\* equality of states / observations as the library defines it (box content is not compared)
GridEq(g1, g2) == Shape(g1) = Shape(g2) /\ \A q \in GPositions(g1) : ObjEq(Cell(g1, q), Cell(g2, q))
StateEq(a, b) == GridEq(a.grid, b.grid) /\ a.pos = b.pos /\ a.ori = b.ori /\ ObjEq(a.item, b.item)
=============================================================================
