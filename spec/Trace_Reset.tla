----------------------------- MODULE Trace_Reset -----------------------------
(***************************************************************************)
(* Trace validation of reset records (C13): the implementation's reset     *)
(* function f was called with parameters p (and some generator); it either *)
(* returned a state or raised.                                             *)
(***************************************************************************)
EXTENDS GVReset, Json, IOUtils, TLC

Recs == ndJsonDeserialize(IOEnv.TRACE_FILE)
VARIABLE i
vars == <<i>>

NormP(p) == IF "colors" \in DOMAIN p THEN [p EXCEPT !.colors = ToSet(@)] ELSE p
Clause(name, ok) == IF ok THEN {} ELSE {name}
Fails(r) ==
  LET p == NormP(r.p)
  IN IF r.outcome = "ok"
       THEN Clause("C13.wellformed", WellFormed(r.f, p, r.st))
            \cup Clause("C13.unhonourable", Honourable(r.f, p))
            \cup Clause("DRIFT.init", ~r.drift \/ InitRel(r.f, p, r.st))
       ELSE Clause("C13.errtype", r.outcome = "ValueError")
            \cup Clause("C13.mustaccept", ~MustAccept(r.f, p))
Report(r) == LET f == Fails(r) IN f = {} \/ PrintT(<<"BAD", r.id, f>>)
Init == i = 0
Next == i < Len(Recs) /\ i' = i + 1 /\ Report(Recs[i'])
Done == PrintT(<<"DONE", Len(Recs), TLCGet("distinct")>>)
=============================================================================
