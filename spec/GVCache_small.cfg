INIT Init
NEXT Next
CONSTANTS
  Cap = 2
  NKeys = 3
  Depth = 6
INVARIANT InvBounded
INVARIANT InvNoDup
INVARIANT InvAnswers
INVARIANT InvCounters
INVARIANT Emit
CHECK_DEADLOCK FALSE
