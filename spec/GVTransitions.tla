--------------------------- MODULE GVTransitions ---------------------------
(***************************************************************************)
(* The seven built-in transition components and `chain`                    *)
(* (envs/transition_functions.py), each as a set-valued operator (the two  *)
(* stochastic ones return every possible outcome), followed by the         *)
(* declarative rules of properties C08-C11, which are stated without       *)
(* reference to the operational definitions.                               *)
(*                                                                         *)
(* Modelled as the code is meant to behave on the whole state space:       *)
(*   - a front/target cell outside the grid means "nothing happens";       *)
(*   - teleport fires on every step the agent stands on a telepod, and an  *)
(*     unpaired telepod leaves the agent in place;                         *)
(*   - obstacles are processed in row-major order of their original        *)
(*     positions; they may step on the agent's cell; doors never close.    *)
(***************************************************************************)
EXTENDS GVState, TLC

Swap(g, p, q) == SetCell(SetCell(g, p, Cell(g, q)), q, Cell(g, p))

\* ---------------------------------------------------------------- move_agent
MoveTarget(st, a) == NextPosition(st.pos, st.ori, a)
CanEnter(g, t) == InGrid(g, t) /\ ~BlocksMovement(Cell(g, t))
MoveAgent(st, a) ==
  IF a \in MoveActions /\ CanEnter(st.grid, MoveTarget(st, a))
    THEN [st EXCEPT !.pos = MoveTarget(st, a)]
    ELSE st

\* ---------------------------------------------------------------- turn_agent
TurnAgent(st, a) ==
  IF a \in TurnActions THEN [st EXCEPT !.ori = Mul(st.ori, TurnDir(a))] ELSE st

\* ----------------------------------------------------------------- pickndrop
PickNDrop(st, a) ==
  IF a # "PICK_N_DROP" \/ ~InGrid(st.grid, Front(st)) THEN st
  ELSE LET f == Front(st)
           o == Cell(st.grid, f)
       IN IF ~(IsFloor(o) \/ Holdable(o)) THEN st
          ELSE [st EXCEPT
                  !.grid = SetCell(@, f, IF st.item.t # "NoneGridObject"
                                           THEN st.item ELSE Floor),
                  !.item = IF Holdable(o) THEN o ELSE NoneObj]

\* -------------------------------------------------------------- actuate_door
CanOpen(door, item) ==
  \/ door.s = DoorClosed
  \/ (door.s = DoorLocked /\ item.t = "Key" /\ item.c = door.c)
ActuateDoor(st, a) ==
  IF a # "ACTUATE" \/ ~InGrid(st.grid, Front(st)) THEN st
  ELSE LET f == Front(st)
           o == Cell(st.grid, f)
       IN IF o.t = "Door" /\ CanOpen(o, st.item)
            THEN [st EXCEPT !.grid = SetCell(@, f, [o EXCEPT !.s = DoorOpen])]
            ELSE st

\* --------------------------------------------------------------- actuate_box
ActuateBox(st, a) ==
  IF a # "ACTUATE" \/ ~InGrid(st.grid, Front(st)) THEN st
  ELSE LET f == Front(st)
           o == Cell(st.grid, f)
       IN IF o.t = "Box" THEN [st EXCEPT !.grid = SetCell(@, f, o.in[1])] ELSE st

\* ------------------------------------------------------------ move_obstacles
RowMajor(g) ==
  [i \in 1..(GHeight(g) * GWidth(g)) |-> <<(i - 1) \div GWidth(g), (i - 1) % GWidth(g)>>]
ObstacleSeq(g) == SelectSeq(RowMajor(g), LAMBDA p : Cell(g, p).t = "MovingObstacle")
FreeNeighbours(g, p) ==
  {q \in ManhattanBoundary(p, 1) : InGrid(g, q) /\ IsFloor(Cell(g, q))}
\* (a position of the order that holds no obstacle when its turn comes - e.g. a box that was not opened - is skipped)
MoveOne(g, p) ==
  IF Cell(g, p).t # "MovingObstacle" \/ FreeNeighbours(g, p) = {} THEN {g}
  ELSE {Swap(g, p, q) : q \in FreeNeighbours(g, p)}
RECURSIVE ObstacleFold(_, _, _)
ObstacleFold(grids, ps, k) ==
  IF k > Len(ps) THEN grids
  ELSE ObstacleFold(UNION {MoveOne(g, ps[k]) : g \in grids}, ps, k + 1)
\* obstacles processed in the order `ps`
MoveObstaclesInOrder(st, ps) ==
  {[st EXCEPT !.grid = g] : g \in ObstacleFold({st.grid}, ps, 1)}
MoveObstacles(st) == MoveObstaclesInOrder(st, ObstacleSeq(st.grid))

\* ------------------------------------------------------------------ teleport
TelepodPartners(st) ==
  LET o == Cell(st.grid, st.pos)
  IN {p \in GPositions(st.grid) :
        p # st.pos /\ Cell(st.grid, p).t = "Telepod" /\ Cell(st.grid, p).c = o.c}
Teleport(st) ==
  IF Cell(st.grid, st.pos).t # "Telepod" \/ TelepodPartners(st) = {} THEN {st}
  ELSE {[st EXCEPT !.pos = p] : p \in TelepodPartners(st)}

\* ---------------------------------------------------- components and chains
\* a component is a record with a field `name`; `chain` carries
\* `transition_functions`, a sequence of components
TransitionNames ==
  {"chain", "move_agent", "turn_agent", "pickndrop", "move_obstacles",
   "actuate_door", "actuate_box", "teleport"}
\* examples/coin_env.py: the coin under the agent is collected (replaced by floor)
CollectCoin(st) ==
  IF Cell(st.grid, st.pos).t = "Coin" THEN [st EXCEPT !.grid = SetCell(@, st.pos, Floor)] ELSE st

RECURSIVE ApplyT(_, _, _)
RECURSIVE ApplySeq(_, _, _, _)
ApplyT(comp, st, a) ==
  CASE comp.name = "move_agent" -> {MoveAgent(st, a)}
    [] comp.name = "turn_agent" -> {TurnAgent(st, a)}
    [] comp.name = "pickndrop" -> {PickNDrop(st, a)}
    [] comp.name = "actuate_door" -> {ActuateDoor(st, a)}
    [] comp.name = "actuate_box" -> {ActuateBox(st, a)}
    [] comp.name = "move_obstacles" -> MoveObstacles(st)
    [] comp.name = "teleport" -> Teleport(st)
    [] comp.name = "collect_coin_transition" -> {CollectCoin(st)}
    [] comp.name = "chain" -> ApplySeq(comp.transition_functions, {st}, a, 1)
ApplySeq(comps, S, a, k) ==
  IF k > Len(comps) THEN S
  ELSE ApplySeq(comps, UNION {ApplyT(comps[k], s, a) : s \in S}, a, k + 1)

\* the transition of an environment configured with the list `comps`
Step(comps, st, a) == ApplySeq(comps, {st}, a, 1)

\* the same with the obstacles processed in a given order ps (a permutation of their positions) instead of
\* row-major order: the property does not prescribe the order, only that there is one
RECURSIVE ApplyTO(_, _, _, _)
RECURSIVE ApplySeqO(_, _, _, _, _)
ApplyTO(comp, st, a, ps) ==
  CASE comp.name = "move_obstacles" -> MoveObstaclesInOrder(st, ps)
    [] comp.name = "chain" -> ApplySeqO(comp.transition_functions, {st}, a, 1, ps)
    [] OTHER -> ApplyT(comp, st, a)
ApplySeqO(comps, S, a, k, ps) ==
  IF k > Len(comps) THEN S
  ELSE ApplySeqO(comps, UNION {ApplyTO(comps[k], s, a, ps) : s \in S}, a, k + 1, ps)
StepInOrder(comps, st, a, ps) == ApplySeqO(comps, {st}, a, 1, ps)

\* flat list of the names in a (possibly nested) list of components
RECURSIVE FlatNames(_)
FlatNames(comps) ==
  IF comps = <<>> THEN <<>>
  ELSE (IF Head(comps).name = "chain"
          THEN FlatNames(Head(comps).transition_functions)
          ELSE <<Head(comps).name>>) \o FlatNames(Tail(comps))
Has(comps, n) == \E i \in DOMAIN FlatNames(comps) : FlatNames(comps)[i] = n
CountOf(comps, n) == Cardinality({i \in DOMAIN FlatNames(comps) : FlatNames(comps)[i] = n})
IndexOf(comps, n) == CHOOSE i \in DOMAIN FlatNames(comps) : FlatNames(comps)[i] = n
Before(comps, m, n) == \* m absent, n absent, or m occurs before n
  ~Has(comps, m) \/ ~Has(comps, n) \/ IndexOf(comps, m) < IndexOf(comps, n)
\* compositions for which the declarative rules below are stated: every
\* component at most once and teleport after everything that moves or edits
RuleShaped(comps) ==
  /\ \A n \in TransitionNames \ {"chain"} : CountOf(comps, n) <= 1
  /\ \A n \in {"move_agent", "turn_agent", "pickndrop", "actuate_door", "actuate_box"} :
       Before(comps, n, "teleport")
  /\ \A n \in {"pickndrop", "actuate_door", "actuate_box"} :
       Before(comps, n, "move_obstacles")

(***************************************************************************)
(* Declarative rules.  They take the flags of a composition (which         *)
(* components it contains), not the composition itself.                    *)
(***************************************************************************)
Flags(comps) ==
  [move |-> Has(comps, "move_agent"), turn |-> Has(comps, "turn_agent"),
   pick |-> Has(comps, "pickndrop"), door |-> Has(comps, "actuate_door"),
   box |-> Has(comps, "actuate_box"), obst |-> Has(comps, "move_obstacles"),
   tele |-> Has(comps, "teleport"), shaped |-> RuleShaped(comps)]

\* C08 kinematics -----------------------------------------------------------
\* the position before teleportation
MovedPos(F, st, a) ==
  IF F.move /\ a \in MoveActions /\ CanEnter(st.grid, MoveTarget(st, a))
    THEN MoveTarget(st, a) ELSE st.pos
KinematicsRule(F, st, a, st2) ==
  LET pm == MovedPos(F, st, a)
      onPod == F.tele /\ Cell(st2.grid, pm).t = "Telepod"
  IN /\ st2.ori = (IF F.turn /\ a \in TurnActions THEN Mul(st.ori, TurnDir(a)) ELSE st.ori)
     /\ (st2.pos # pm =>
           /\ onPod
           /\ InGrid(st2.grid, st2.pos)
           /\ Cell(st2.grid, st2.pos).t = "Telepod"
           /\ Cell(st2.grid, st2.pos).c = Cell(st2.grid, pm).c)
     /\ (onPod /\ st2.pos = pm =>
           ~\E p \in GPositions(st2.grid) :
               p # pm /\ Cell(st2.grid, p).t = "Telepod"
                      /\ Cell(st2.grid, p).c = Cell(st2.grid, pm).c)
\* the history invariant of C08
AgentOK(st) == InGrid(st.grid, st.pos) /\ ~BlocksMovement(Cell(st.grid, st.pos))

\* C09 conservation ---------------------------------------------------------
\* a cell that was just turned into floor may be entered by an obstacle later
\* in the same step
SameOrObstacle(F, expected, actual) ==
  \/ actual = expected
  \/ (IsFloor(expected) /\ actual.t = "MovingObstacle" /\ F.obst)
  \* an obstacle released from a box (or dropped) takes its turn in the same step and may have left the cell
  \/ (expected.t = "MovingObstacle" /\ IsFloor(actual) /\ F.obst)
Counted(o) == o.t \notin {"Floor", "NoneGridObject"}
\* the bag of counted objects of a state, as a function kind -> count
CountedCells(st) == {p \in GPositions(st.grid) : Counted(Cell(st.grid, p))}
KindsOf(st) ==
  {ObjKind(Cell(st.grid, p)) : p \in CountedCells(st)}
    \cup (IF Counted(st.item) THEN {ObjKind(st.item)} ELSE {})
CountKind(st, k) ==
  Cardinality({p \in CountedCells(st) : ObjKind(Cell(st.grid, p)) = k})
    + (IF Counted(st.item) /\ ObjKind(st.item) = k THEN 1 ELSE 0)
\* the box that an ACTUATE opens in `st`, as a set of positions (empty or one)
OpenedBox(F, st, a) ==
  IF F.box /\ a = "ACTUATE" /\ InGrid(st.grid, Front(st)) /\ Cell(st.grid, Front(st)).t = "Box"
    THEN {Front(st)} ELSE {}
BagRule(F, st, a, st2) ==
  LET ob == OpenedBox(F, st, a)
      ks == KindsOf(st) \cup KindsOf(st2)
      boxK == IF ob = {} THEN {} ELSE {ObjKind(Cell(st.grid, Front(st)))}
      inK == IF ob = {} \/ ~Counted(Cell(st.grid, Front(st)).in[1]) THEN {}
             ELSE {ObjKind(Cell(st.grid, Front(st)).in[1])}
  IN \A k \in ks :
       CountKind(st2, k) = CountKind(st, k) - (IF k \in boxK THEN 1 ELSE 0)
                                            + (IF k \in inK THEN 1 ELSE 0)
Scenery(o) == o.t \in {"Wall", "Exit", "Door", "Box", "Telepod", "Beacon", "Hidden"}
SceneryRule(F, st, a, st2) ==
  LET ob == OpenedBox(F, st, a)
      f == Front(st)
  IN /\ Shape(st2.grid) = Shape(st.grid)
     /\ \A p \in GPositions(st.grid) :
          LET o == Cell(st.grid, p)
              o2 == Cell(st2.grid, p)
          IN /\ (Scenery(o) /\ p \notin ob => ObjKind(o2) = ObjKind(o))
             /\ (Scenery(o2) /\ ~Scenery(o) =>
                   a = "PICK_N_DROP" /\ p = f /\ ObjKind(o2) = ObjKind(st.item))
\* pick-and-drop does exactly one of pick / drop / swap, on the front cell only
PickDropRule(F, st, a, st2) ==
  LET f == Front(st)
      ob == OpenedBox(F, st, a)
      acts == F.pick /\ a = "PICK_N_DROP" /\ InGrid(st.grid, f)
                /\ (IsFloor(Cell(st.grid, f)) \/ Holdable(Cell(st.grid, f)))
      others == {p \in GPositions(st.grid) :
                   (~acts \/ p # f) /\ Cell(st.grid, p).t # "MovingObstacle"
                     /\ Cell(st2.grid, p).t # "MovingObstacle" /\ p \notin ob}
  IN /\ \A p \in others : ObjKind(Cell(st2.grid, p)) = ObjKind(Cell(st.grid, p))
     /\ IF acts
          THEN /\ SameOrObstacle(F, IF st.item.t # "NoneGridObject" THEN st.item ELSE Floor,
                                Cell(st2.grid, f))
               /\ st2.item = (IF Holdable(Cell(st.grid, f)) THEN Cell(st.grid, f) ELSE NoneObj)
          ELSE st2.item = st.item
ConservationRule(F, st, a, st2) ==
  BagRule(F, st, a, st2) /\ SceneryRule(F, st, a, st2) /\ PickDropRule(F, st, a, st2)

\* C10 doors and boxes ------------------------------------------------------
DoorRule(F, st, a, st2) ==
  LET f == Front(st)
      ob == OpenedBox(F, st, a)
  IN /\ \A p \in GPositions(st.grid) :
          LET o == Cell(st.grid, p)
              o2 == Cell(st2.grid, p)
          IN /\ (o.t = "Door" =>
                   /\ o2.t = "Door" /\ o2.c = o.c
                   /\ (o2.s # o.s <=>
                         /\ F.door /\ a = "ACTUATE" /\ p = f /\ CanOpen(o, st.item))
                   /\ (o2.s # o.s => o2.s = DoorOpen))
             /\ (o.t = "Box" =>
                   IF p \in ob THEN SameOrObstacle(F, o.in[1], o2) ELSE o2 = o)
             /\ (o2.t \in {"Door", "Box"} /\ o.t # o2.t =>
                   (a = "PICK_N_DROP" /\ p = f) \/ p \in ob)
     /\ (a = "ACTUATE" => st2.item = st.item)

\* C11 stochastic dynamics --------------------------------------------------
Obstacles(g) == {p \in GPositions(g) : Cell(g, p).t = "MovingObstacle"}
\* positions that can hold an obstacle when move_obstacles runs inside a chain: the obstacles of the state and the
\* box in front that ACTUATE opens, if it holds one (actuate_box may come before move_obstacles in the chain)
ObstacleSources(st, a) ==
  Obstacles(st.grid) \cup
    (IF a = "ACTUATE" /\ InGrid(st.grid, Front(st)) /\ Cell(st.grid, Front(st)).t = "Box"
          /\ Cell(st.grid, Front(st)).in[1].t = "MovingObstacle" THEN {Front(st)} ELSE {})
\* every permutation of a set as a sequence (small sets only)
Perms(S) == {f \in [1..Cardinality(S) -> S] : \A i, j \in 1..Cardinality(S) : i # j => f[i] # f[j]}
\* "each obstacle, at its turn, moves to a floor 4-neighbour or, if none, stays":
\* the grid part of st2 is an outcome of processing the obstacles in SOME order
ObstacleRule(st, st2) ==
  \E ps \in Perms(Obstacles(st.grid)) : st2.grid \in ObstacleFold({st.grid}, ps, 1)
\* necessary conditions only (used when there are too many obstacles to search orders)
ObstacleRuleWeak(st, st2) ==
  /\ Cardinality(Obstacles(st2.grid)) = Cardinality(Obstacles(st.grid))
  /\ \A p \in Obstacles(st2.grid) :
       \/ p \in Obstacles(st.grid)
       \/ (IsFloor(Cell(st.grid, p)) /\ \E q \in Obstacles(st.grid) : Manhattan(p, q) = 1)
  /\ \A p \in GPositions(st.grid) :
       Cell(st.grid, p).t \notin {"Floor", "MovingObstacle"} => Cell(st2.grid, p) = Cell(st.grid, p)
  /\ \A p \in Obstacles(st.grid) \ Obstacles(st2.grid) : IsFloor(Cell(st2.grid, p))
TeleportRule(st, st2) ==
  /\ st2.grid = st.grid /\ st2.ori = st.ori /\ st2.item = st.item
  /\ IF Cell(st.grid, st.pos).t = "Telepod" /\ TelepodPartners(st) # {}
       THEN st2.pos \in TelepodPartners(st) ELSE st2.pos = st.pos

\* closure (C01): the next state is in the same state space
ClosureRule(sp, st, st2) == InStateSpace(sp, st) => InStateSpace(sp, st2)
=============================================================================
