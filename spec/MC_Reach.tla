------------------------------- MODULE MC_Reach -------------------------------
(***************************************************************************)
(* The complete reachable state graph of a small configuration, from ALL   *)
(* initial states of Init_<f>(p), under the configuration's own dynamics   *)
(* (episodes end in terminal states).  History invariants of C01, C08,     *)
(* C09, C10 are evaluated in every reachable state:                        *)
(*   closure (InStateSpace), AgentOK, conservation of the episode's        *)
(*   inventory, "an initially locked door is open only if a matching key   *)
(*   was used on it", "the agent is beyond the wall only if the door is    *)
(*   open".                                                                *)
(* PARAM_FILE: {"f", "p", "comps", "term", "types", "colors"}              *)
(***************************************************************************)
EXTENDS GVReset, Json, IOUtils, TLC

Par == JsonDeserialize(IOEnv.PARAM_FILE)
NormP(p) == IF "colors" \in DOMAIN p THEN [p EXCEPT !.colors = ToSet(@)] ELSE p
Comps == Par.comps
Term == Par.term

VARIABLES st, over, bag0, locked0, side0, usedKey
vars == <<st, over, bag0, locked0, side0, usedKey>>

BagOf(s) == {<<k, CountKind(s, k)>> : k \in KindsOf(s)}
LockedDoors(s) == {q \in GPositions(s.grid) : Cell(s.grid, q).t = "Door" /\ Cell(s.grid, q).s = DoorLocked}
Uses(s, a) ==
  IF a = "ACTUATE" /\ InGrid(s.grid, Front(s)) /\ Cell(s.grid, Front(s)).t = "Door"
       /\ Cell(s.grid, Front(s)).s = DoorLocked /\ s.item.t = "Key" /\ s.item.c = Cell(s.grid, Front(s)).c
    THEN {Front(s)} ELSE {}

Init ==
  /\ IF Par.f = "memory_rooms" THEN InitRel_memory_rooms_reduced(NormP(Par.p), "RED", "BLUE", st)
                               ELSE InitRel(Par.f, NormP(Par.p), st)
  /\ over = FALSE
  /\ bag0 = BagOf(st) /\ locked0 = LockedDoors(st) /\ side0 = st.pos[2] /\ usedKey = {}
Next ==
  /\ ~over
  /\ \E a \in AllActions :
       \E s2 \in Step(Comps, st, a) :
          /\ st' = s2
          /\ over' = Terminates(Term, st, a, s2)
          /\ usedKey' = usedKey \cup Uses(st, a)
  /\ UNCHANGED <<bag0, locked0, side0>>

Sp == [shape |-> Shape(st.grid), types |-> ToSet(Par.types), colors |-> ToSet(Par.colors)]
InvClosure == InStateSpace(Sp, st)
InvAgentOK == AgentOK(st)
InvInventory == BagOf(st) = bag0
InvDoorHistory == \A q \in locked0 : Cell(st.grid, q).s = DoorOpen => q \in usedKey
InvBeyondWall == \A q \in locked0 : (side0 < q[2] /\ st.pos[2] > q[2]) => Cell(st.grid, q).s = DoorOpen
InvDoorsStayDoors == \A q \in locked0 : Cell(st.grid, q).t = "Door"
=============================================================================
