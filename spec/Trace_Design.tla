----------------------------- MODULE Trace_Design -----------------------------
(* Trace validation of the drawing primitives: (op, arguments, grid before, grid after, returned positions). *)
EXTENDS GVDesign, Json, IOUtils, TLC

Recs == ndJsonDeserialize(IOEnv.TRACE_FILE)
VARIABLE i
vars == <<i>>
Expected(r) ==
  CASE r.op = "draw_wall_boundary" -> DrawWallBoundary(r.grid)
    [] r.op = "draw_room" -> DrawRoom(r.grid, r.area, r.obj)
    [] r.op = "draw_area" -> DrawArea(r.grid, r.area, r.obj, r.fill)
    [] r.op = "draw_room_grid" -> DrawRoomGrid(r.grid, r.ys, r.xs, r.obj)
    [] r.op = "draw_line_horizontal" -> DrawLineHorizontal(r.grid, r.y, r.xs, r.obj)
    [] r.op = "draw_line_vertical" -> DrawLineVertical(r.grid, r.ys, r.x, r.obj)
    [] r.op = "draw_cartesian_product" -> DrawCartesianProduct(r.grid, r.ys, r.xs, r.obj)
OK(r) == r.after = Expected(r)[1] /\ r.positions = Expected(r)[2]
Report(r) == OK(r) \/ PrintT(<<"BAD", r.id, r.op>>)
Init == i = 0
Next == i < Len(Recs) /\ i' = i + 1 /\ Report(Recs[i'])
Done == PrintT(<<"DONE", Len(Recs), TLCGet("distinct")>>)
=============================================================================
