-------------------------------- MODULE GVEnv --------------------------------
(***************************************************************************)
(* The environment machine (envs/inner_env.py, envs/gridworld.py,          *)
(* outer_env.py, gym.py): what every public operation does to the current  *)
(* state, the cached observation, the component call counters and the      *)
(* environment's own random generator, and what it returns.                *)
(*                                                                         *)
(* States are abstracted to identities: every reset / successful step      *)
(* creates a fresh state id.  The replay harness drives real environments  *)
(* (with counting wrappers around the five components and a recording      *)
(* generator) along the behaviours of this machine and compares, after     *)
(* every operation, outcome class, counters, generator use and the values  *)
(* against a second environment driven through the functional interface.   *)
(***************************************************************************)
EXTENDS Integers, Sequences, FiniteSets, TLC

CONSTANTS Depth,        \* length of behaviours
          Ops           \* operations explored

AllOps == {"Reset", "Step", "StepInvalid", "ReadObs", "ReadState", "OuterObs", "OuterState",
           "FuncReset", "FuncStep", "FuncObs", "GymReset", "GymStep", "GymObs", "GymState",
           "WrapReset", "WrapStep", "SetObsRep", "SetStateRep"}
None == -1

VARIABLES cur,        \* id of the current state, None before the first reset
          obsCache,   \* id of the state whose observation is cached, or None
          nextId,     \* next fresh state id
          calls,      \* [reset, trans, rew, term, obs |-> number of component calls]
          hist        \* sequence of [op, outcome, may_draw, calls, cur, cached, ret]

vars == <<cur, obsCache, nextId, calls, hist>>
Zero == [reset |-> 0, trans |-> 0, rew |-> 0, term |-> 0, obs |-> 0]

Init == cur = None /\ obsCache = None /\ nextId = 0 /\ calls = Zero /\ hist = <<>>

\* what an operation returns, abstractly: which state's observation / representation it shows
Log(op, outcome, draw, c, cu, ca, ret) ==
  hist' = Append(hist, [op |-> op, outcome |-> outcome, may_draw |-> draw, calls |-> c,
                        cur |-> cu, cached |-> ca, ret |-> ret])

\* --- stateful inner environment --------------------------------------------
DoReset(op) ==
  /\ cur' = nextId /\ nextId' = nextId + 1 /\ obsCache' = None
  /\ calls' = [calls EXCEPT !.reset = @ + 1]
  /\ Log(op, "ok", TRUE, calls', cur', None, "none")
Reset == DoReset("Reset")

\* a successful step: transition, reward and termination are each called once
DoStep(op, ret) ==
  IF cur = None
    THEN /\ UNCHANGED <<cur, obsCache, nextId, calls>> /\ Log(op, "RuntimeError", FALSE, calls, cur, obsCache, "none")
    ELSE /\ cur' = nextId /\ nextId' = nextId + 1 /\ obsCache' = None
         /\ calls' = [calls EXCEPT !.trans = @ + 1, !.rew = @ + 1, !.term = @ + 1]
         /\ Log(op, "ok", TRUE, calls', cur', None, ret)
Step == DoStep("Step", "reward_done")
\* an action outside the action space: ValueError, nothing changes
StepInvalid ==
  /\ UNCHANGED <<cur, obsCache, nextId, calls>>
  /\ Log("StepInvalid", IF cur = None THEN "RuntimeError" ELSE "ValueError", FALSE, calls, cur, obsCache, "none")

\* reading the observation fills the cache at most once per state
DoReadObs(op, ret) ==
  IF cur = None
    THEN /\ UNCHANGED <<cur, obsCache, nextId, calls>> /\ Log(op, "RuntimeError", FALSE, calls, cur, obsCache, "none")
    ELSE /\ obsCache' = cur /\ UNCHANGED <<cur, nextId>>
         /\ calls' = IF obsCache = None THEN [calls EXCEPT !.obs = @ + 1] ELSE calls
         /\ Log(op, "ok", obsCache = None, calls', cur, cur, ret)
ReadObs == DoReadObs("ReadObs", "obs_of_cur")
ReadState ==
  /\ UNCHANGED <<cur, obsCache, nextId, calls>>
  /\ Log("ReadState", IF cur = None THEN "RuntimeError" ELSE "ok", FALSE, calls, cur, obsCache, "state_of_cur")

\* --- numeric outer environment: representations of the inner reads ------------
OuterObs == DoReadObs("OuterObs", "rep_obs_of_cur")
OuterState ==
  /\ UNCHANGED <<cur, obsCache, nextId, calls>>
  /\ Log("OuterState", IF cur = None THEN "RuntimeError" ELSE "ok", FALSE, calls, cur, obsCache, "rep_state_of_cur")

\* --- functional interface: no effect on the stateful part --------------------------
FuncReset ==
  /\ UNCHANGED <<cur, obsCache, nextId>> /\ calls' = [calls EXCEPT !.reset = @ + 1]
  /\ Log("FuncReset", "ok", TRUE, calls', cur, obsCache, "fresh_state")
FuncStep ==  \* on the current state if there is one, else on a fresh functional state
  /\ UNCHANGED <<cur, obsCache, nextId>>
  /\ calls' = [calls EXCEPT !.trans = @ + 1, !.rew = @ + 1, !.term = @ + 1]
  /\ Log("FuncStep", "ok", TRUE, calls', cur, obsCache, "next_state")
FuncObs ==
  /\ UNCHANGED <<cur, obsCache, nextId>> /\ calls' = [calls EXCEPT !.obs = @ + 1]
  /\ Log("FuncObs", "ok", TRUE, calls', cur, obsCache, "obs")

\* --- gym layer ---------------------------------------------------------------------------
\* reset / step return the representation of the observation of the NEW state (which fills the cache)
GymReset ==
  /\ cur' = nextId /\ nextId' = nextId + 1 /\ obsCache' = cur'
  /\ calls' = [calls EXCEPT !.reset = @ + 1, !.obs = @ + 1]
  /\ Log("GymReset", "ok", TRUE, calls', cur', cur', "rep_obs_of_cur")
GymStep ==
  IF cur = None
    THEN /\ UNCHANGED <<cur, obsCache, nextId, calls>> /\ Log("GymStep", "RuntimeError", FALSE, calls, cur, obsCache, "none")
    ELSE /\ cur' = nextId /\ nextId' = nextId + 1 /\ obsCache' = cur'
         /\ calls' = [calls EXCEPT !.trans = @ + 1, !.rew = @ + 1, !.term = @ + 1, !.obs = @ + 1]
         /\ Log("GymStep", "ok", TRUE, calls', cur', cur', "rep_obs_of_cur_reward_done_info")
GymObs == DoReadObs("GymObs", "rep_obs_of_cur")
GymState ==
  /\ UNCHANGED <<cur, obsCache, nextId, calls>>
  /\ Log("GymState", IF cur = None THEN "RuntimeError" ELSE "ok", FALSE, calls, cur, obsCache, "rep_state_of_cur")
\* the state wrapper returns the state representation and passes the observation through info
WrapReset ==
  /\ cur' = nextId /\ nextId' = nextId + 1 /\ obsCache' = cur'
  /\ calls' = [calls EXCEPT !.reset = @ + 1, !.obs = @ + 1]
  /\ Log("WrapReset", "ok", TRUE, calls', cur', cur', "rep_state_of_cur")
WrapStep ==
  IF cur = None
    THEN /\ UNCHANGED <<cur, obsCache, nextId, calls>> /\ Log("WrapStep", "RuntimeError", FALSE, calls, cur, obsCache, "none")
    ELSE /\ cur' = nextId /\ nextId' = nextId + 1 /\ obsCache' = cur'
         /\ calls' = [calls EXCEPT !.trans = @ + 1, !.rew = @ + 1, !.term = @ + 1, !.obs = @ + 1]
         /\ Log("WrapStep", "ok", TRUE, calls', cur', cur', "rep_state_of_cur_reward_done_info_obs")
\* switching representation changes only the advertised space
SetObsRep ==
  /\ UNCHANGED <<cur, obsCache, nextId, calls>> /\ Log("SetObsRep", "ok", FALSE, calls, cur, obsCache, "space")
SetStateRep ==
  /\ UNCHANGED <<cur, obsCache, nextId, calls>> /\ Log("SetStateRep", "ok", FALSE, calls, cur, obsCache, "space")

Do(op) ==
  CASE op = "Reset" -> Reset [] op = "Step" -> Step [] op = "StepInvalid" -> StepInvalid
    [] op = "ReadObs" -> ReadObs [] op = "ReadState" -> ReadState
    [] op = "OuterObs" -> OuterObs [] op = "OuterState" -> OuterState
    [] op = "FuncReset" -> FuncReset [] op = "FuncStep" -> FuncStep [] op = "FuncObs" -> FuncObs
    [] op = "GymReset" -> GymReset [] op = "GymStep" -> GymStep [] op = "GymObs" -> GymObs [] op = "GymState" -> GymState
    [] op = "WrapReset" -> WrapReset [] op = "WrapStep" -> WrapStep
    [] op = "SetObsRep" -> SetObsRep [] op = "SetStateRep" -> SetStateRep
Next == Len(hist) < Depth /\ \E op \in Ops : Do(op)

\* --- properties (C04, C20) ------------------------------------------------------------------
NotStale == obsCache # None => obsCache = cur
\* the observation function is called at most once per state (functional calls counted apart)
FuncObsCalls == Cardinality({k \in DOMAIN hist : hist[k].op = "FuncObs"})
ObsAtMostOncePerState == calls.obs - FuncObsCalls <= nextId
\* reward and termination are called exactly as often as the transition function
RewardTermWithTransition == calls.rew = calls.trans /\ calls.term = calls.trans
\* failing operations change nothing and draw nothing
FailuresAreInert ==
  \A k \in DOMAIN hist :
     hist[k].outcome # "ok" =>
        /\ ~hist[k].may_draw
        /\ hist[k].calls = (IF k = 1 THEN Zero ELSE hist[k - 1].calls)
        /\ hist[k].cur = (IF k = 1 THEN None ELSE hist[k - 1].cur)
\* nothing before the first reset returns a state
NoStateBeforeReset ==
  \A k \in DOMAIN hist :
     (hist[k].op \in {"ReadState", "ReadObs", "OuterObs", "OuterState", "Step", "GymStep", "GymObs", "GymState", "WrapStep"}
        /\ hist[k].cur = None) => hist[k].outcome = "RuntimeError"
\* repeated reads do not consume randomness
RepeatedReadsAreFree ==
  \A k \in 2..Len(hist) :
     (hist[k].op \in {"ReadObs", "OuterObs", "GymObs"} /\ hist[k - 1].cached = hist[k].cur /\ hist[k].cur # None
        /\ hist[k - 1].cur = hist[k].cur) => ~hist[k].may_draw /\ hist[k].calls = hist[k - 1].calls
\* the gym layer returns the observation of the post-step state
GymReturnsFresh ==
  \A k \in DOMAIN hist : hist[k].op \in {"GymStep", "GymReset", "WrapStep", "WrapReset"} /\ hist[k].outcome = "ok" =>
     hist[k].cached = hist[k].cur

EmitFull ==
  Len(hist) = Depth =>
     PrintT(<<"BEH", [k \in DOMAIN hist |->
                <<hist[k].op, hist[k].outcome, hist[k].may_draw, hist[k].calls.reset, hist[k].calls.trans,
                  hist[k].calls.rew, hist[k].calls.term, hist[k].calls.obs, hist[k].cur, hist[k].cached>>]>>)
Emit == Len(hist) = Depth => PrintT(<<"BEH", [k \in DOMAIN hist |-> hist[k].op]>>)
=============================================================================
