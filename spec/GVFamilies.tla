---------------------------- MODULE GVFamilies ----------------------------
(***************************************************************************)
(* Small-scope families of states (DESIGN.md section 2).  Each exhaustive  *)
(* family is indexed: FamilyIndex maps a member to its position in a       *)
(* mixed-radix enumeration, so that a trace validator can confirm that the *)
(* implementation was run on every member, in order.                       *)
(***************************************************************************)
EXTENDS GVRewards

\* the cell alphabet: every kind of cell content that any component treats
\* differently (each type, every door status, two colours, two box contents)
Alpha ==
  <<Floor, Wall, Exit("NONE"), Door(DoorOpen, "RED"), Door(DoorClosed, "RED"),
    Door(DoorLocked, "RED"), Door(DoorLocked, "BLUE"), Key("RED"), Key("BLUE"),
    Obstacle, Box(Key("RED")), Box(Floor), Telepod("RED"), Telepod("BLUE"),
    Beacon("RED")>>
NAlpha == Len(Alpha)
AlphaSet == ToSet(Alpha)
AlphaIndex(o) == CHOOSE i \in 0..(NAlpha - 1) : Alpha[i + 1] = o

\* what the agent may hold: nothing, a key of either colour, a non-key object
HeldSeq == <<NoneObj, Key("RED"), Key("BLUE"), Wall>>
NHeld == Len(HeldSeq)
HeldIndex(o) == CHOOSE i \in 0..(NHeld - 1) : HeldSeq[i + 1] = o

FamilyTypes ==
  {"Floor", "Wall", "Exit", "Door", "Key", "MovingObstacle", "Box", "Telepod", "Beacon"}
FamilySpace(shape) == [shape |-> shape, types |-> FamilyTypes, colors |-> Colors]

RECURSIVE Pow(_, _)
Pow(b, e) == IF e = 0 THEN 1 ELSE b * Pow(b, e - 1)

\* S-cell: every filling of an h x w grid from Alpha, every pose, every held item
CellFamilySize(h, w) == Pow(NAlpha, h * w) * (h * w) * 4 * NHeld
InCellFamily(st) ==
  /\ IsRectangular(st.grid)
  /\ \A p \in GPositions(st.grid) : Cell(st.grid, p) \in AlphaSet
  /\ InGrid(st.grid, st.pos) /\ st.ori \in Oris
  /\ st.item \in ToSet(HeldSeq)
RECURSIVE CellDigits(_, _, _)
CellDigits(g, k, acc) == \* row-major, first cell most significant
  IF k > GHeight(g) * GWidth(g) THEN acc
  ELSE CellDigits(g, k + 1, acc * NAlpha + AlphaIndex(Cell(g, RowMajor(g)[k])))
CellFamilyIndex(st) ==
  ((CellDigits(st.grid, 1, 0) * (GHeight(st.grid) * GWidth(st.grid))
      + (st.pos[1] * GWidth(st.grid) + st.pos[2])) * 4
      + OriIdx(st.ori)) * NHeld + HeldIndex(st.item)

\* S-local: h x w grids with at most k non-floor cells from Alpha
InLocalFamily(st, k) ==
  /\ InCellFamily(st)
  /\ Cardinality({p \in GPositions(st.grid) : ~IsFloor(Cell(st.grid, p))}) <= k
=============================================================================
