------------------------- MODULE GVGeometryProofs -------------------------
(***************************************************************************)
(* TLAPS proofs of the laws of C18 over unbounded integers.                *)
(***************************************************************************)
EXTENDS GVGeometry, TLAPS

Pos == Int \X Int
IsArea(A) == A \in (Int \X Int) \X (Int \X Int)
Transforms == [p : Pos, o : Oris]

LEMMA OriFacts ==
  /\ OriIdx("F") = 0 /\ OriIdx("R") = 1 /\ OriIdx("B") = 2 /\ OriIdx("L") = 3
  /\ OriOf(0) = "F" /\ OriOf(1) = "R" /\ OriOf(2) = "B" /\ OriOf(3) = "L"
  /\ OriOf(4) = "F" /\ OriOf(5) = "R" /\ OriOf(6) = "B"
  BY DEF OriIdx, OriOf, OriSeq

LEMMA MulTable ==
  /\ Mul("F", "F") = "F" /\ Mul("F", "R") = "R" /\ Mul("F", "B") = "B" /\ Mul("F", "L") = "L"
  /\ Mul("R", "F") = "R" /\ Mul("R", "R") = "B" /\ Mul("R", "B") = "L" /\ Mul("R", "L") = "F"
  /\ Mul("B", "F") = "B" /\ Mul("B", "R") = "L" /\ Mul("B", "B") = "F" /\ Mul("B", "L") = "R"
  /\ Mul("L", "F") = "L" /\ Mul("L", "R") = "F" /\ Mul("L", "B") = "R" /\ Mul("L", "L") = "B"
  BY OriFacts DEF Mul

LEMMA NegTable == Neg("F") = "F" /\ Neg("R") = "L" /\ Neg("B") = "B" /\ Neg("L") = "R"
  BY OriFacts DEF Neg

THEOREM MulClosed == \A a, b \in Oris : Mul(a, b) \in Oris
  BY MulTable DEF Oris
THEOREM MulAssoc == \A a, b, c \in Oris : Mul(Mul(a, b), c) = Mul(a, Mul(b, c))
  BY MulTable DEF Oris
THEOREM MulIdentity == \A a \in Oris : Mul("F", a) = a /\ Mul(a, "F") = a
  BY MulTable DEF Oris
THEOREM MulInverse == \A a \in Oris : Neg(a) \in Oris /\ Mul(a, Neg(a)) = "F" /\ Mul(Neg(a), a) = "F"
  BY MulTable, NegTable DEF Oris
THEOREM MulCommutes == \A a, b \in Oris : Mul(a, b) = Mul(b, a)
  BY MulTable DEF Oris
THEOREM RGenerates ==
  /\ Mul("R", "R") = "B" /\ Mul("R", Mul("R", "R")) = "L" /\ Mul("R", Mul("R", Mul("R", "R"))) = "F"
  BY MulTable
THEOREM TurnsRestore == \A o \in Oris :
  /\ Mul(Mul(o, "L"), "R") = o
  /\ Mul(Mul(Mul(Mul(o, "L"), "L"), "L"), "L") = o
  /\ Mul(Mul(Mul(Mul(o, "R"), "R"), "R"), "R") = o
  BY MulTable DEF Oris

THEOREM RotType == \A o \in Oris, p \in Pos : Rot(o, p) \in Pos
  BY DEF Rot, Oris, Pos
THEOREM RotAdditive == \A o \in Oris, p, q \in Pos : Rot(o, PAdd(p, q)) = PAdd(Rot(o, p), Rot(o, q))
  BY DEF Rot, PAdd, Oris, Pos
THEOREM RotIsometry == \A o \in Oris, p \in Pos : Norm2(Rot(o, p)) = Norm2(p)
  BY DEF Rot, Norm2, Oris, Pos
THEOREM RotAction == \A a, b \in Oris, p \in Pos : Rot(a, Rot(b, p)) = Rot(Mul(a, b), p)
  BY MulTable DEF Rot, Oris, Pos
THEOREM RotIdentity == \A p \in Pos : Rot("F", p) = p
  BY DEF Rot, Pos
THEOREM DeltaIsRotatedForward == \A o \in Oris : Delta(o) = Rot(o, Delta("F"))
  BY DEF Delta, Rot, Oris

THEOREM TMulClosed == \A t, u \in Transforms : TMul(t, u) \in Transforms
  BY MulTable DEF TMul, Transforms, PAdd, Rot, Oris, Pos
THEOREM TMulAssoc == \A t, u, v \in Transforms : TMul(TMul(t, u), v) = TMul(t, TMul(u, v))
  BY MulTable DEF TMul, Transforms, PAdd, Rot, Oris, Pos
THEOREM TIdentity == \A t \in Transforms : TMul(TId, t) = t /\ TMul(t, TId) = t
  BY MulTable DEF TMul, TId, Transforms, PAdd, Rot, Oris, Pos
THEOREM TInverse == \A t \in Transforms : TMul(t, TNeg(t)) = TId /\ TMul(TNeg(t), t) = TId
  BY MulTable, NegTable DEF TMul, TNeg, TId, Transforms, PAdd, PNeg, Rot, Oris, Pos
THEOREM TActionCompat == \A t, u \in Transforms, p \in Pos : TApply(TMul(t, u), p) = TApply(t, TApply(u, p))
<1> SUFFICES ASSUME NEW t \in Transforms, NEW u \in Transforms, NEW p \in Pos
             PROVE TApply(TMul(t, u), p) = TApply(t, TApply(u, p))
  OBVIOUS
<1>1. t.o \in Oris /\ u.o \in Oris /\ t.p \in Pos /\ u.p \in Pos
  BY DEF Transforms
<1>2. CASE t.o = "F"
  BY <1>1, <1>2, MulTable DEF TMul, TApply, PAdd, Rot, Oris, Pos
<1>3. CASE t.o = "R"
  BY <1>1, <1>3, MulTable DEF TMul, TApply, PAdd, Rot, Oris, Pos
<1>4. CASE t.o = "B"
  BY <1>1, <1>4, MulTable DEF TMul, TApply, PAdd, Rot, Oris, Pos
<1>5. CASE t.o = "L"
  BY <1>1, <1>5, MulTable DEF TMul, TApply, PAdd, Rot, Oris, Pos
<1> QED BY <1>1, <1>2, <1>3, <1>4, <1>5 DEF Oris

THEOREM RotAreaContains ==
  \A o \in Oris, p \in Pos, A \in (Int \X Int) \X (Int \X Int) :
     AreaContains(A, p) <=> AreaContains(RotArea(o, A), Rot(o, p))
  BY DEF AreaContains, RotArea, Rot, Oris, Pos, AYMin, AYMax, AXMin, AXMax
THEOREM ShiftAreaContains ==
  \A q \in Pos, p \in Pos, A \in (Int \X Int) \X (Int \X Int) :
     AreaContains(A, p) <=> AreaContains(ShiftArea(q, A), PAdd(q, p))
  BY DEF AreaContains, ShiftArea, PAdd, Pos, AYMin, AYMax, AXMin, AXMax
THEOREM NextPositionIsPose ==
  \A p \in Pos, o \in Oris, a \in MoveActions :
     NextPosition(p, o, a) = TApply([p |-> p, o |-> o], Delta(MoveDir(a)))
  BY MulTable DEF NextPosition, TApply, MoveActions, MoveDir, Delta, PAdd, Rot, Oris, Pos
=============================================================================
