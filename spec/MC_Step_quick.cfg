INIT Init
NEXT Next
CONSTANTS
  Shapes <- ShapesLine
  MaxNonFloor <- Unbounded
  AlphaSub <- FullAlpha
  HeldSub <- FullHeld
  CompNames = {"all", "all2", "nested", "keydoor"}
INVARIANT InvShaped
INVARIANT InvClosure
INVARIANT InvKinematics
INVARIANT InvAgentOK
INVARIANT InvConservation
INVARIANT InvDoor
INVARIANT InvTurnsCompose
INVARIANT InvExitAgreement
INVARIANT InvBumpAgreement
INVARIANT InvObstacle
INVARIANT InvObstacleComplete
INVARIANT InvTeleport
INVARIANT InvTeleportComplete
CONSTANTS
  ShardIdx = 0
  NShards = 1
CHECK_DEADLOCK FALSE
