---------------------------- MODULE Trace_Returns ----------------------------
(***************************************************************************)
(* utils/rl.make_return_computer: cumulative discounted return             *)
(*    G_k = sum_{i < k} discount^i * r_i                                   *)
(* checked exactly for dyadic data: discount = 1 / 2^dexp, rewards r_i =   *)
(* rnum_i / 8; the record holds the integer returns scaled by              *)
(* 8 * 2^(dexp * (k - 1)), which binary floating point represents exactly  *)
(* for the small k used.                                                   *)
(***************************************************************************)
EXTENDS Integers, Sequences, Json, IOUtils, TLC

Recs == ndJsonDeserialize(IOEnv.TRACE_FILE)
VARIABLE i
vars == <<i>>
RECURSIVE Pow2(_)
Pow2(n) == IF n = 0 THEN 1 ELSE 2 * Pow2(n - 1)
RECURSIVE Scaled(_, _, _)
\* 8 * 2^(dexp*(k-1)) * G_k  =  sum_{i<k} rnum_i * 2^(dexp*(k-1-i))
Scaled(r, k, j) == IF j > k THEN 0 ELSE r.rnum[j] * Pow2(r.dexp * (k - j)) + Scaled(r, k, j + 1)
OK(r) == \A k \in DOMAIN r.rnum : r.exact[k] /\ r.scaled[k] = Scaled(r, k, 1)
Report(r) == OK(r) \/ PrintT(<<"BAD", r.id>>)
Init == i = 0
Next == i < Len(Recs) /\ i' = i + 1 /\ Report(Recs[i'])
Done == PrintT(<<"DONE", Len(Recs), TLCGet("distinct")>>)
=============================================================================
