------------------------------- MODULE MC_Win -------------------------------
(***************************************************************************)
(* C14: from every initial state, the goal can be reached by the           *)
(* environment's own dynamics without first passing through a terminating  *)
(* state.  Breadth-first search of the specification's dynamics from a set *)
(* of origins: either the generative set Init_<f>(p) of the specification  *)
(* (Source = "init") or initial states produced by the real reset          *)
(* functions and logged by the harness (Source = "file").                  *)
(*                                                                         *)
(* PARAM_FILE: {"f", "p", "comps", "term", "goal": "exit" | "memory",      *)
(*              "origins": [state...], "maxdepth", "shard", "nshards"}     *)
(* Output: <<"WIN", origin index, plan>> once per winning origin and       *)
(* <<"LOSE", origin index, state>> for origins without a plan.             *)
(* Run with -workers 1 (the set of winners lives in a TLC register).       *)
(***************************************************************************)
EXTENDS GVReset, Json, IOUtils, TLC, SequencesExt

CONSTANT Source

Par == JsonDeserialize(IOEnv.PARAM_FILE)
NormP(p) == IF "colors" \in DOMAIN p THEN [p EXCEPT !.colors = ToSet(@)] ELSE p
Comps == Par.comps
Term == Par.term
MaxDepth == Par.maxdepth

TypeIdxTable == [t \in Types |-> TypeIndex(t)]
GridKey(st) ==
  LET W == GWidth(st.grid)
      N == GHeight(st.grid) * W
      RECURSIVE Sum(_)
      Sum(k) == IF k > N THEN 0
                ELSE (TypeIdxTable[st.grid[((k - 1) \div W) + 1][((k - 1) % W) + 1].t] * k) + Sum(k + 1)
  IN Sum(1) + st.pos[1] * 31 + st.pos[2] * 17 + OriIdx(st.ori)
FileOrigins == Par.origins
\* compact unique signature of an initial state: pose and one integer per cell
ColorIdxTable == [c \in Colors |-> ColorIndex(c)]
CellCode(o) == TypeIdxTable[o.t] * 100 + ColorIdxTable[o.c] * 10 + o.s
Sig(s) ==
  <<s.pos[1], s.pos[2], OriIdx(s.ori)>> \o
  [k \in 1..(GHeight(s.grid) * GWidth(s.grid)) |->
     CellCode(s.grid[((k - 1) \div GWidth(s.grid)) + 1][((k - 1) % GWidth(s.grid)) + 1])]
MyShard(s) == GridKey(s) % Par.nshards = Par.shard

\* origin: the index into the logged origins (Source = "file") or the initial state itself
VARIABLES origin, st, over, plan
vars == <<origin, st, over, plan>>
View == <<origin, st, over>>

Goal(s) ==
  IF Par.goal = "memory" THEN s.pos \in MemoryGoalExits(s) ELSE OnType(s, "Exit")

ASSUME TLCSet(1, {})
ASSUME TLCSet(2, 0)
ASSUME TLCSet(3, {})
Init ==
  /\ IF Source = "file"
       THEN origin \in 1..Len(FileOrigins) /\ st = FileOrigins[origin]
       ELSE InitRel(Par.f, NormP(Par.p), st) /\ MyShard(st) /\ origin = Sig(st)
  /\ over = FALSE
  /\ plan = <<>>
Next ==
  /\ ~over
  /\ Len(plan) < MaxDepth
  /\ \E a \in AllActions :
       \E s2 \in Step(Comps, st, a) :
          /\ st' = s2
          /\ over' = Terminates(Term, st, a, s2)
          /\ plan' = Append(plan, a)
  /\ origin' = origin

\* origins that already have a plan are not explored further
Pending == origin \notin TLCGet(1)
\* winners are printed with their plan (every one for logged origins, a sample for generated ones)
Sampled == Source = "file" \/ (origin[1] * 7 + origin[2] * 3 + origin[3] + origin[4 + (Len(origin) \div 2)]) % 29 = 0
InvWin ==
  (plan # <<>> /\ Goal(st) /\ origin \notin TLCGet(1)) =>
     /\ (Sampled => PrintT(<<"WIN", origin, plan>>))
     /\ TLCSet(1, TLCGet(1) \cup {origin})
\* count the origins (initial states)
InvCount == plan = <<>> => TLCSet(2, TLCGet(2) + 1) /\ (Source = "file" \/ TLCSet(3, TLCGet(3) \cup {origin}))
\* C08 history invariant along the way: the agent is never outside the grid or on a blocking cell
InvAgentOK == AgentOK(st)
Post ==
  /\ PrintT(<<"ORIGINS", TLCGet(2), Cardinality(TLCGet(1))>>)
  /\ IF Source = "file"
       THEN \A i \in 1..Len(FileOrigins) : i \in TLCGet(1) \/ PrintT(<<"LOSE", i, FileOrigins[i]>>)
       ELSE \A o \in TLCGet(3) \ TLCGet(1) : PrintT(<<"LOSE", 0, o>>)
=============================================================================
