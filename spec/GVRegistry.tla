----------------------------- MODULE GVRegistry -----------------------------
(***************************************************************************)
(* Component registries (utils/registry.py FunctionRegistry and            *)
(* grid_object.GridObjectRegistry) as machines: what registering and       *)
(* looking up does and which error each misuse raises.  TLC enumerates all *)
(* operation sequences; the replay harness executes them on fresh registry *)
(* instances.                                                              *)
(***************************************************************************)
EXTENDS Integers, Sequences, FiniteSets, TLC

CONSTANTS Names, Depth

VARIABLES fnames,    \* names registered in the function registry
          order,     \* grid-object classes in registration order (their type_index)
          hist       \* <<op, name, outcome, extra>>
vars == <<fnames, order, hist>>

Init == fnames = {} /\ order = <<>> /\ hist = <<>>
Log(op, n, out, extra) == hist' = Append(hist, <<op, n, out, extra>>)
InSeq(s, x) == \E i \in DOMAIN s : s[i] = x
IndexIn(s, x) == CHOOSE i \in DOMAIN s : s[i] = x

\* register(function) with a well-formed protocol signature, under its own name
Register(n) ==
  /\ UNCHANGED order
  /\ IF n \in fnames THEN fnames' = fnames /\ Log("register", n, "ValueError", 0)
                     ELSE fnames' = fnames \cup {n} /\ Log("register", n, "ok", 0)
\* register(function) whose signature lacks the protocol keyword `rng`: TypeError
RegisterBadSignature(n) == UNCHANGED <<fnames, order>> /\ Log("register_bad_signature", n, "TypeError", 0)
\* register(function) with too few positional parameters: the code fails while unpacking the protocol
\* parameters, i.e. with ValueError (the TypeError its helper intends is never reached)
RegisterBadArity(n) == UNCHANGED <<fnames, order>> /\ Log("register_bad_arity", n, "ValueError", 0)
\* register() with neither function nor name
RegisterNothing == UNCHANGED <<fnames, order>> /\ Log("register_nothing", "", "ValueError", 0)
\* registry[name]
Lookup(n) == UNCHANGED <<fnames, order>> /\ Log("lookup", n, IF n \in fnames THEN "ok" ELSE "KeyError", 0)
\* a new GridObject subclass is registered at class creation; type_index is the registration position
DefineClass(n) ==
  /\ UNCHANGED fnames
  /\ order' = Append(order, n)
  /\ Log("define_class", n, "ok", Len(order))
FromName(n) ==
  /\ UNCHANGED <<fnames, order>>
  /\ Log("from_name", n, IF InSeq(order, n) THEN "ok" ELSE "ValueError", IF InSeq(order, n) THEN IndexIn(order, n) - 1 ELSE -1)
Next ==
  /\ Len(hist) < Depth
  /\ \/ \E n \in Names : Register(n) \/ RegisterBadSignature(n) \/ RegisterBadArity(n) \/ Lookup(n) \/ FromName(n)
     \/ \E n \in Names : ~InSeq(order, n) /\ DefineClass(n)
     \/ RegisterNothing
NamesUnique == \A i, j \in DOMAIN order : i # j => order[i] # order[j]
LookupAfterRegister ==
  \A k \in DOMAIN hist : hist[k][1] = "lookup" /\ hist[k][3] = "ok" =>
     \E j \in 1..(k - 1) : hist[j][1] = "register" /\ hist[j][2] = hist[k][2] /\ hist[j][3] = "ok"
Emit == Len(hist) = Depth => PrintT(<<"REG", hist>>)
=============================================================================
