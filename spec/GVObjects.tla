---------------------------- MODULE GVObjects ----------------------------
(***************************************************************************)
(* Grid objects (mirrors gym_gridverse/grid_object.py).                    *)
(*                                                                         *)
(* An object is a record [t |-> type name, s |-> state index,              *)
(* c |-> colour name, in |-> <<>> or <<content>>]; only Box has content.   *)
(***************************************************************************)
EXTENDS Integers, Sequences, FiniteSets

\* registration order of the built-in types = type_index
TypeSeq == <<"NoneGridObject", "Hidden", "Floor", "Wall", "Exit", "Door",
             "Key", "MovingObstacle", "Box", "Telepod", "Beacon",
             "Coin",    \* Coin: the custom object of examples/coin_env.py (registered when that module is imported)
             "Gem">>    \* Gem: a user-defined HOLDABLE object (harness/custom.py, registered after Coin): Key is the only
                        \* built-in holdable type, and the dynamics must go by the attribute, not by the class
Types == {TypeSeq[i] : i \in 1..Len(TypeSeq)}
TypeIndex(t) == CHOOSE i \in 0..(Len(TypeSeq) - 1) : TypeSeq[i + 1] = t
NumStates(t) == IF t = "Door" THEN 3 ELSE 1

ColorSeq == <<"NONE", "RED", "GREEN", "BLUE", "YELLOW">>
Colors == {ColorSeq[i] : i \in 1..Len(ColorSeq)}
ColorIndex(c) == CHOOSE i \in 0..(Len(ColorSeq) - 1) : ColorSeq[i + 1] = c
RealColors == Colors \ {"NONE"}

\* types that carry a colour attribute
ColoredTypes == {"Exit", "Door", "Key", "Telepod", "Beacon"}
\* types that can appear in a State (Hidden only in observations, None only as held item)
StateRepresentableTypes == Types \ {"Hidden", "Box"}   \* can_be_represented_in_state

DoorOpen == 0
DoorClosed == 1
DoorLocked == 2

Obj(t, s, c) == [t |-> t, s |-> s, c |-> c, in |-> <<>>]
NoneObj == Obj("NoneGridObject", 0, "NONE")
Hidden == Obj("Hidden", 0, "NONE")
Floor == Obj("Floor", 0, "NONE")
Wall == Obj("Wall", 0, "NONE")
Exit(c) == Obj("Exit", 0, c)
Door(s, c) == Obj("Door", s, c)
Key(c) == Obj("Key", 0, c)
Obstacle == Obj("MovingObstacle", 0, "NONE")
Telepod(c) == Obj("Telepod", 0, c)
Beacon(c) == Obj("Beacon", 0, c)
Gem == Obj("Gem", 0, "NONE")
Box(content) == [t |-> "Box", s |-> 0, c |-> "NONE", in |-> <<content>>]

IsType(o, t) == o.t = t
IsFloor(o) == o.t = "Floor"

BlocksMovement(o) ==
  \/ o.t \in {"Wall", "Box"}
  \/ (o.t = "Door" /\ o.s # DoorOpen)
BlocksVision(o) ==
  \/ o.t \in {"NoneGridObject", "Hidden", "Wall"}
  \/ (o.t = "Door" /\ o.s # DoorOpen)
Holdable(o) == o.t \in {"Key", "Gem"}

\* a well-formed object of the built-in types (depth of box nesting bounded by d)
RECURSIVE WellFormedObj(_, _)
WellFormedObj(o, d) ==
  /\ DOMAIN o = {"t", "s", "c", "in"}
  /\ o.t \in Types
  /\ o.s \in 0..(NumStates(o.t) - 1)
  /\ o.c \in Colors
  /\ (o.t \notin ColoredTypes => o.c = "NONE")
  /\ IF o.t = "Box"
       THEN /\ Len(o.in) = 1 /\ d > 0
            /\ o.in[1].t \notin {"NoneGridObject", "Hidden"}
            /\ WellFormedObj(o.in[1], d - 1)
       ELSE o.in = <<>>

\* Python-level equality of grid objects: (type, state, colour); box content ignored
ObjEq(a, b) == a.t = b.t /\ a.s = b.s /\ a.c = b.c
\* identity used by the conservation rule: type, colour, content (status excluded)
ObjKind(o) == [t |-> o.t, c |-> o.c, in |-> o.in]
=============================================================================
