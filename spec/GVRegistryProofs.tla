-------------------------- MODULE GVRegistryProofs --------------------------
(***************************************************************************)
(* TLAPS proof that the grid-object registry never holds a name twice      *)
(* (NamesUnique: type_index = registration position is well defined), for  *)
(* every set of names and every depth.                                     *)
(***************************************************************************)
EXTENDS GVRegistry, TLAPS, SequenceTheorems

TypeOK == order \in Seq(Names)
Inv == TypeOK /\ NamesUnique

LEMMA InitInv == Init => Inv
  BY DEF Init, Inv, TypeOK, NamesUnique

LEMMA StepInv == Inv /\ [Next]_vars => Inv'
<1> SUFFICES ASSUME Inv, [Next]_vars PROVE Inv'
  OBVIOUS
<1> USE DEF Inv, TypeOK, NamesUnique
<1>1. CASE UNCHANGED vars
  BY <1>1 DEF vars
<1>2. CASE Next
  <2>1. CASE UNCHANGED order
    BY <2>1
  <2>2. ASSUME NEW n \in Names, ~InSeq(order, n), DefineClass(n) PROVE Inv'
    <3>1. order' = Append(order, n)
      BY <2>2 DEF DefineClass
    <3>2. order' \in Seq(Names) /\ Len(order') = Len(order) + 1
          /\ (\A i \in 1..Len(order) : order'[i] = order[i]) /\ order'[Len(order) + 1] = n
      BY <3>1, AppendProperties
    <3>3. \A i \in 1..Len(order) : order[i] # n
      BY <2>2 DEF InSeq
    <3>4. DOMAIN order' = 1..(Len(order) + 1) /\ DOMAIN order = 1..Len(order) /\ Len(order) \in Nat
      BY <3>2, LenProperties
    <3> QED BY <3>2, <3>3, <3>4
  <2>3. (\E n \in Names : ~InSeq(order, n) /\ DefineClass(n)) \/ UNCHANGED order
    BY <1>2 DEF Next, Register, RegisterBadSignature, RegisterBadArity, RegisterNothing, Lookup, FromName
  <2> QED BY <2>1, <2>2, <2>3
<1> QED BY <1>1, <1>2

THEOREM NamesUniqueAlways == Init /\ [][Next]_vars => []NamesUnique
<1>1. Inv => NamesUnique
  BY DEF Inv
<1> QED BY InitInv, StepInv, <1>1, PTL
=============================================================================
