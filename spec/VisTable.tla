------------------------------ MODULE VisTable ------------------------------
(***************************************************************************)
(* C06 on every opacity pattern of a small view.                           *)
(*                                                                         *)
(* The file named by TRACE_FILE holds one table: the view shape, the       *)
(* agent's cell, the visibility function, the fan of rays the              *)
(* implementation uses for that view (logged in this run) and, for every   *)
(* opacity pattern n (bit k of n = cell k, row-major, is opaque), the      *)
(* visibility mask returned by the implementation (bit k = cell k visible).*)
(* With Source = "code" the declarative predicates are evaluated on the    *)
(* implementation's masks (trace validation) and the masks are compared    *)
(* with the specification's (drift); with Source = "spec" they are         *)
(* evaluated on the specification's own visibility functions.              *)
(***************************************************************************)
EXTENDS GVObservation, Json, IOUtils, TLC

CONSTANT Source

Tab == JsonDeserialize(IOEnv.TRACE_FILE)
H == Tab.h
W == Tab.w
P == <<Tab.py, Tab.px>>
FName == Tab.fname
Fan == Tab.fan
NCells == H * W
NPatterns == 2 ^ NCells

VARIABLE n
vars == <<n>>

Pow2 == [k \in 0..NCells |-> 2 ^ k]
Bit(m, k) == (m \div Pow2[k]) % 2 = 1
CellIdx(c) == c[1] * W + c[2]
CellOf(k) == <<k \div W, k % W>>
Cells == {CellOf(k) : k \in 0..(NCells - 1)}
PatternGrid(m) == [i \in 1..H |-> [j \in 1..W |-> IF Bit(m, (i - 1) * W + (j - 1)) THEN Wall ELSE Floor]]
MaskSet(v) == {c \in Cells : Bit(v, CellIdx(c))}
RECURSIVE EncodeSet(_)
EncodeSet(S) == IF S = {} THEN 0 ELSE LET c == CHOOSE x \in S : TRUE IN Pow2[CellIdx(c)] + EncodeSet(S \ {c})

\* optional parameters of the raytracing visibility function: [abs, tn, td] (threshold tn / td)
HasParams == "params" \in DOMAIN Tab
SpecVisible(m) ==
  IF HasParams THEN RaytracingThr(PatternGrid(m), Fan, Tab.params.abs, Tab.params.tn, Tab.params.td)
  ELSE VisibleSet(FName, PatternGrid(m), P, Fan)
SpecMask(m) == EncodeSet(SpecVisible(m))
SpecMasks == [m \in 0..(NPatterns - 1) |-> SpecMask(m)]
MaskOf(m) == IF Source = "code" THEN Tab.masks[m + 1] ELSE SpecMasks[m]
Toggle(m, k) == IF Bit(m, k) THEN m - Pow2[k] ELSE m + Pow2[k]

Init == n = -1
Next == n = -1 /\ n' \in 0..(NPatterns - 1)

Active == n >= 0
InvSelfVisible == Active => Bit(MaskOf(n), CellIdx(P))
InvChainConnected == Active => ChainConnected(PatternGrid(n), MaskSet(MaskOf(n)), P)
\* making a visible opaque cell transparent never hides a visible cell
InvMonotone ==
  Active =>
    \A k \in 0..(NCells - 1) :
       (Bit(n, k) /\ Bit(MaskOf(n), k)) =>
          \A d \in 0..(NCells - 1) : Bit(MaskOf(n), d) => Bit(MaskOf(n - Pow2[k]), d)
\* changing the content of a hidden cell changes nothing
InvNonInterfering ==
  Active =>
    \A k \in 0..(NCells - 1) : ~Bit(MaskOf(n), k) => MaskOf(Toggle(n, k)) = MaskOf(n)
\* unobstructed views show everything (C19)
InvUnobstructed == n = 0 => MaskOf(0) = NPatterns - 1
\* the implementation's mask equals the specification's (drift, not a verdict)
InvAgreesWithSpec == (Active /\ Source = "code") => Tab.masks[n + 1] = SpecMask(n)
\* the logged fan is a fan (GVRays)
InvFanOK == FName # "raytracing" \/ FanOK(Fan, P, GArea(PatternGrid(0)))
=============================================================================
