------------------------------- MODULE GVHeap -------------------------------
(***************************************************************************)
(* The caller's view of the functional interface (C03): state handles with *)
(* values and object identities.  functional_step / transition_with_copy   *)
(* create a handle whose mutable components are all fresh and leave every  *)
(* existing handle's value alone; observation, reward and termination      *)
(* create nothing and change nothing; only an explicit mutation by the     *)
(* caller changes a value, and only that handle's.                         *)
(* The replay harness executes behaviours of this model on real State      *)
(* objects and re-projects ALL live handles after every operation.         *)
(***************************************************************************)
EXTENDS Integers, Sequences, FiniteSets, TLC

CONSTANTS MaxHandles, Depth

VARIABLES val,     \* val[h]: abstract value version of handle h
          ids,     \* ids[h]: identity tokens of the mutable components of handle h
          nextTok, \* next fresh token (values and identities)
          hist     \* sequence of operations <<op, handle(s)>>
vars == <<val, ids, nextTok, hist>>
Handles == DOMAIN val

Init == val = <<0>> /\ ids = <<{1}>> /\ nextTok = 2 /\ hist = <<>>   \* handle 1: a state from reset

NewHandle(v, op, src) ==
  /\ Len(val) < MaxHandles
  /\ val' = Append(val, v)
  /\ ids' = Append(ids, {nextTok})
  /\ nextTok' = nextTok + 2
  /\ hist' = Append(hist, <<op, src, Len(val) + 1>>)
\* functional_step: a new state (its value may or may not differ), fresh identities, input untouched
Step(h) == NewHandle(nextTok + 1, "Step", h)
\* copy: same value, fresh identities
Copy(h) == NewHandle(val[h], "Copy", h)
\* pure questions: nothing changes
Ask(op, h) == /\ UNCHANGED <<val, ids, nextTok>> /\ hist' = Append(hist, <<op, h, 0>>)
\* the caller mutates one of its states in place
Mutate(h) ==
  /\ val' = [val EXCEPT ![h] = nextTok]
  /\ nextTok' = nextTok + 1
  /\ UNCHANGED ids
  /\ hist' = Append(hist, <<"Mutate", h, 0>>)
Next ==
  /\ Len(hist) < Depth
  /\ \E h \in Handles :
       \/ Step(h) \/ Copy(h) \/ Mutate(h)
       \/ Ask("Obs", h) \/ Ask("Reward", h) \/ Ask("Terminate", h) \/ Ask("ReAsk", h)

\* no two handles share a mutable component
AliasFree == \A g, h \in Handles : g # h => ids[g] \cap ids[h] = {}
\* a value changes only through Mutate on that handle
OnlyMutateChanges ==
  [][\A h \in Handles : val'[h] # val[h] => hist'[Len(hist')] = <<"Mutate", h, 0>>]_vars
\* a copy equals its original at the time of copying
CopyEquals == [][\A h \in Handles : (Len(val') > Len(val) /\ hist'[Len(hist')][1] = "Copy" /\ hist'[Len(hist')][2] = h)
                   => val'[Len(val')] = val[h]]_vars
Emit == Len(hist) = Depth => PrintT(<<"HEAP", hist>>)
Spec == Init /\ [][Next]_vars
=============================================================================
