------------------------------- MODULE GVHeap -------------------------------
(***************************************************************************)
(* The caller's view of the functional interface (C03): state handles with *)
(* values and object identities.  functional_step / transition_with_copy   *)
(* create a handle whose mutable components are all fresh and leave every  *)
(* existing handle's value alone; observation, reward and termination      *)
(* create nothing and change nothing; only an explicit mutation by the     *)
(* caller changes a value, and only that handle's.                         *)
(* An answer (observation) handed to the caller is not changed by any      *)
(* later call, so that a retained answer still equals the answer to the    *)
(* same question asked again.  Deliberate deviation, modelled as it is: an *)
(* observation shares the cell objects of the state it was computed from   *)
(* (Grid.subgrid does not copy), so the CALLER mutating that state may     *)
(* change the answers asked about it - and nothing else may.               *)
(* The replay harness executes behaviours of this model on real State      *)
(* objects and re-projects ALL live handles and ALL retained answers after *)
(* every operation.                                                        *)
(***************************************************************************)
EXTENDS Integers, Sequences, FiniteSets, TLC

CONSTANTS MaxHandles, Depth

VARIABLES val,     \* val[h]: abstract value version of handle h
          ids,     \* ids[h]: identity tokens of the mutable components of handle h
          nextTok, \* next fresh token (values and identities)
          ans,     \* ans[k]: the k-th observation handed out: <<handle it was asked about, value>>
          hist     \* sequence of operations <<op, handle(s)>>
vars == <<val, ids, nextTok, ans, hist>>
Handles == DOMAIN val

Init == val = <<0>> /\ ids = <<{1}>> /\ nextTok = 2 /\ ans = <<>> /\ hist = <<>>   \* handle 1: a state from reset

NewHandle(v, op, src) ==
  /\ Len(val) < MaxHandles
  /\ val' = Append(val, v)
  /\ ids' = Append(ids, {nextTok})
  /\ nextTok' = nextTok + 2
  /\ UNCHANGED ans
  /\ hist' = Append(hist, <<op, src, Len(val) + 1>>)
\* functional_step: a new state (its value may or may not differ), fresh identities, input untouched
Step(h) == NewHandle(nextTok + 1, "Step", h)
\* copy: same value, fresh identities
Copy(h) == NewHandle(val[h], "Copy", h)
\* pure questions: nothing changes
Ask(op, h) ==
  /\ UNCHANGED <<val, ids, nextTok>>
  /\ ans' = IF op = "Obs" THEN Append(ans, <<h, val[h]>>) ELSE ans
  /\ hist' = Append(hist, <<op, h, 0>>)
\* the caller mutates one of its states in place
Mutate(h) ==
  /\ val' = [val EXCEPT ![h] = nextTok]
  /\ nextTok' = nextTok + 1
  /\ UNCHANGED ids
  /\ \E S \in SUBSET {k \in DOMAIN ans : ans[k][1] = h} :
        ans' = [k \in DOMAIN ans |-> IF k \in S THEN <<h, nextTok>> ELSE ans[k]]
  /\ hist' = Append(hist, <<"Mutate", h, 0>>)
Next ==
  /\ Len(hist) < Depth
  /\ \E h \in Handles :
       \/ Step(h) \/ Copy(h) \/ Mutate(h)
       \/ Ask("Obs", h) \/ Ask("Reward", h) \/ Ask("Terminate", h) \/ Ask("ReAsk", h)

\* no two handles share a mutable component
AliasFree == \A g, h \in Handles : g # h => ids[g] \cap ids[h] = {}
\* a value changes only through Mutate on that handle
OnlyMutateChanges ==
  [][\A h \in Handles : val'[h] # val[h] => hist'[Len(hist')] = <<"Mutate", h, 0>>]_vars
\* an answer, once given, changes only when the caller mutates the very state it was asked about
AnswersNeverChange ==
  [][\A k \in DOMAIN ans : ans'[k] # ans[k] => hist'[Len(hist')] = <<"Mutate", ans[k][1], 0>>]_vars
\* a copy equals its original at the time of copying
CopyEquals == [][\A h \in Handles : (Len(val') > Len(val) /\ hist'[Len(hist')][1] = "Copy" /\ hist'[Len(hist')][2] = h)
                   => val'[Len(val')] = val[h]]_vars
Emit == Len(hist) = Depth => PrintT(<<"HEAP", hist>>)
Spec == Init /\ [][Next]_vars
=============================================================================
