--------------------------- MODULE GVHeapProofs ---------------------------
(***************************************************************************)
(* TLAPS proof that AliasFree is an invariant of GVHeap for every number   *)
(* of handles and every depth (TLC checks it for 3 handles, depth <= 6).   *)
(* Strengthening: every identity token handed out is below nextTok.        *)
(***************************************************************************)
EXTENDS GVHeap, TLAPS, SequenceTheorems

ASSUME ConstAssump == MaxHandles \in Nat /\ Depth \in Nat

TypeOK ==
  /\ val \in Seq(Nat)
  /\ ids \in Seq(SUBSET Nat)
  /\ Len(ids) = Len(val)
  /\ nextTok \in Nat
Below == \A h \in 1..Len(ids) : \A t \in ids[h] : t < nextTok
Inv == TypeOK /\ Below /\ AliasFree

LEMMA InitInv == Init => Inv
  BY DEF Init, Inv, TypeOK, Below, AliasFree, Handles

LEMMA NewHandleInv ==
  ASSUME Inv, NEW v \in Nat, NEW op, NEW src, NewHandle(v, op, src)
  PROVE Inv'
<1> USE DEF Inv, TypeOK, Below, AliasFree, Handles, NewHandle
<1>1. val' \in Seq(Nat) /\ Len(val') = Len(val) + 1
  BY AppendProperties
<1>2. ids' \in Seq(SUBSET Nat) /\ Len(ids') = Len(ids) + 1
      /\ (\A h \in 1..Len(ids) : ids'[h] = ids[h]) /\ ids'[Len(ids) + 1] = {nextTok}
  <2>1. {nextTok} \in SUBSET Nat
    OBVIOUS
  <2> QED BY <2>1, AppendProperties
<1>3. nextTok' = nextTok + 2
  OBVIOUS
<1>4. TypeOK'
  BY <1>1, <1>2, <1>3
<1>5. Below'
  BY <1>2, <1>3
<1>6. AliasFree'
  <2>1. DOMAIN val' = 1..(Len(ids) + 1)
    BY <1>1
  <2>2. \A g, h \in 1..(Len(ids) + 1) : g # h => ids'[g] \cap ids'[h] = {}
    BY <1>2
  <2> QED BY <2>1, <2>2
<1> QED BY <1>4, <1>5, <1>6

LEMMA StepInv == Inv /\ [Next]_vars => Inv'
<1> SUFFICES ASSUME Inv, [Next]_vars PROVE Inv'
  OBVIOUS
<1>1. CASE UNCHANGED vars
  BY <1>1 DEF Inv, TypeOK, Below, AliasFree, Handles, vars
<1>2. CASE Next
  <2>1. PICK h \in Handles : \/ Step(h) \/ Copy(h) \/ Mutate(h)
                             \/ Ask("Obs", h) \/ Ask("Reward", h) \/ Ask("Terminate", h) \/ Ask("ReAsk", h)
    BY <1>2 DEF Next
  <2>2. h \in 1..Len(val) /\ val[h] \in Nat
    BY DEF Inv, TypeOK, Handles
  <2>3. CASE Step(h)
    BY <2>3, NewHandleInv DEF Step, Inv, TypeOK
  <2>4. CASE Copy(h)
    BY <2>4, <2>2, NewHandleInv DEF Copy
  <2>5. CASE Mutate(h)
    <3>1. val' \in Seq(Nat) /\ Len(val') = Len(val) /\ DOMAIN val' = DOMAIN val
      BY <2>5, <2>2 DEF Mutate, Inv, TypeOK
    <3> QED BY <2>5, <3>1 DEF Mutate, Inv, TypeOK, Below, AliasFree, Handles
  <2>6. ASSUME NEW op, Ask(op, h) PROVE Inv'
    BY <2>6 DEF Ask, Inv, TypeOK, Below, AliasFree, Handles
  <2> QED BY <2>1, <2>3, <2>4, <2>5, <2>6
<1> QED BY <1>1, <1>2

THEOREM AliasFreeAlways == Spec => []AliasFree
<1>1. Inv => AliasFree
  BY DEF Inv
<1> QED BY InitInv, StepInv, <1>1, PTL DEF Spec
=============================================================================
