INIT Init
NEXT Next
INVARIANT InvBaseValid
INVARIANT Emit
CHECK_DEADLOCK FALSE
