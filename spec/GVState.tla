------------------------------ MODULE GVState ------------------------------
(***************************************************************************)
(* States, observations and their spaces (state.py, observation.py,        *)
(* spaces.py).                                                             *)
(*                                                                         *)
(* state / observation:                                                    *)
(*   [grid |-> <<row, ...>>, pos |-> <<y, x>>, ori |-> "F", item |-> obj]  *)
(* space: [shape |-> <<H, W>>, types |-> set of names, colors |-> set]     *)
(***************************************************************************)
EXTENDS GVGeometry, GVObjects

ToSet(s) == {s[i] : i \in DOMAIN s}

St(g, p, o, it) == [grid |-> g, pos |-> p, ori |-> o, item |-> it]

GridTypes(g) == {Cell(g, p).t : p \in GPositions(g)}
GridColors(g) == {Cell(g, p).c : p \in GPositions(g)}
Shape(g) == <<GHeight(g), GWidth(g)>>
Pose(st) == [p |-> st.pos, o |-> st.ori]
Front(st) == PAdd(st.pos, Delta(st.ori))
FindType(g, t) == {p \in GPositions(g) : Cell(g, p).t = t}

\* StateSpace.contains -------------------------------------------------------
InStateSpace(sp, st) ==
  /\ IsRectangular(st.grid)
  /\ Shape(st.grid) = sp.shape
  /\ GridTypes(st.grid) \subseteq sp.types
  /\ InGrid(st.grid, st.pos)
  /\ st.ori \in Oris
  /\ st.item.t \in (sp.types \cup {"NoneGridObject"})

\* ObservationSpace.contains -------------------------------------------------
InObservationSpace(sp, ob) ==
  /\ IsRectangular(ob.grid)
  /\ Shape(ob.grid) = sp.shape
  /\ GridTypes(ob.grid) \subseteq (sp.types \cup {"Hidden"})
  /\ GridColors(ob.grid) \subseteq (sp.colors \cup {"NONE"})
  /\ 0 <= ob.pos[1] /\ ob.pos[1] < sp.shape[1]
  /\ 0 <= ob.pos[2] /\ ob.pos[2] < sp.shape[2]
  /\ ob.item.t \in (sp.types \cup {"NoneGridObject"})
  /\ ob.item.c \in (sp.colors \cup {"NONE"})

InActionSpace(actions, a) == a \in ToSet(actions)

\* the default observation area of an observation space of shape <<h, w>>
ObsSpaceArea(shape) == <<<<-(shape[1]) + 1, 0>>, <<-(shape[2] \div 2), shape[2] \div 2>>>>

\* a state that is completely well formed w.r.t. a space, colours included
MemberState(sp, st) ==
  /\ InStateSpace(sp, st)
  /\ GridColors(st.grid) \subseteq (sp.colors \cup {"NONE"})
  /\ st.item.c \in (sp.colors \cup {"NONE"})
  /\ \A p \in GPositions(st.grid) : WellFormedObj(Cell(st.grid, p), 2)
  /\ WellFormedObj(st.item, 2)
=============================================================================
