----------------------------- MODULE GVRewards -----------------------------
(***************************************************************************)
(* Built-in reward and termination components (envs/reward_functions.py,   *)
(* envs/terminating_functions.py) as functions of (state, action, next     *)
(* state).  Rewards are integers in milli-units (1.0 = 1000).              *)
(*                                                                         *)
(* A component is a record with a field `name` and its parameters; absent  *)
(* parameters take the defaults of the code.                               *)
(***************************************************************************)
EXTENDS GVTransitions

Param(comp, key, default) == IF key \in DOMAIN comp THEN comp[key] ELSE default
Infinity == 1000000

OnType(st, t) == Cell(st.grid, st.pos).t = t

\* distance from the unique object of type t (precondition: exactly one)
TheObject(st, t) == CHOOSE p \in GPositions(st.grid) : Cell(st.grid, p).t = t
HasUnique(st, t) == Cardinality(FindType(st.grid, t)) = 1
\* comparable distance value: Manhattan distance or squared Euclidean distance
DistKey(df, p, q) == IF df = "euclidean" THEN Euclid2(p, q) ELSE Manhattan(p, q)

\* breadth-first distance over cells that do not block movement, from the
\* object's cell (which need not be passable) to the agent's cell
Passable(g, p) == InGrid(g, p) /\ ~BlocksMovement(Cell(g, p))
RECURSIVE Bfs(_, _, _, _, _)
Bfs(g, frontier, visited, d, target) ==
  IF target \in frontier THEN d
  ELSE IF frontier = {} THEN Infinity
  ELSE LET nxt == {q \in UNION {ManhattanBoundary(p, 1) : p \in frontier} :
                     Passable(g, q) /\ q \notin visited}
       IN Bfs(g, nxt, visited \cup nxt, d + 1, target)
PathDistance(st, t) ==
  LET src == TheObject(st, t) IN Bfs(st.grid, {src}, {src}, 0, st.pos)

Sign3(prev, next, closer, further) ==
  IF next < prev THEN closer ELSE IF next > prev THEN further ELSE 0

\* the attempted move of `a` in `st` targets a wall
BumpsWall(st, a) ==
  /\ a \in MoveActions
  /\ InGrid(st.grid, MoveTarget(st, a))
  /\ Cell(st.grid, MoveTarget(st, a)).t = "Wall"
\* what the code computes (the tentative position of a non-move is the agent's cell)
BumpsWallAsCoded(st, a) ==
  /\ InGrid(st.grid, MoveTarget(st, a))
  /\ Cell(st.grid, MoveTarget(st, a)).t = "Wall"

BeaconColor(st) ==
  LET beacons == SelectSeq(RowMajor(st.grid), LAMBDA p : Cell(st.grid, p).t = "Beacon")
  IN Cell(st.grid, beacons[1]).c

RewardNames ==
  {"reduce_sum", "overlap", "living_reward", "reach_exit", "bump_moving_obstacle",
   "proportional_to_distance", "getting_closer", "getting_closer_shortest_path",
   "bump_into_wall", "actuate_door", "pickndrop", "reach_exit_memory"}

RECURSIVE Reward(_, _, _, _)
RECURSIVE RewardSum(_, _, _, _, _)
Reward(comp, st, a, st2) ==
  CASE comp.name = "reduce_sum" -> RewardSum(comp.reward_functions, st, a, st2, 1)
    [] comp.name = "overlap" ->
         IF OnType(st2, comp.object_type) THEN Param(comp, "reward_on", 1000)
                                          ELSE Param(comp, "reward_off", 0)
    [] comp.name = "living_reward" -> Param(comp, "reward", -1000)
    [] comp.name = "reach_exit" ->
         IF OnType(st2, "Exit") THEN Param(comp, "reward_on", 1000)
                                ELSE Param(comp, "reward_off", 0)
    [] comp.name = "bump_moving_obstacle" ->
         IF OnType(st2, "MovingObstacle") THEN Param(comp, "reward", -1000) ELSE 0
    [] comp.name = "proportional_to_distance" ->
         \* Manhattan only (the Euclidean variant is checked by EuclidProportionalOK)
         Param(comp, "reward_per_unit_distance", -1000)
           * Manhattan(st2.pos, TheObject(st2, comp.object_type))
    [] comp.name = "getting_closer" ->
         LET df == Param(comp, "distance_function", "manhattan")
         IN Sign3(DistKey(df, st.pos, TheObject(st, comp.object_type)),
                  DistKey(df, st2.pos, TheObject(st2, comp.object_type)),
                  Param(comp, "reward_closer", 1000), Param(comp, "reward_further", -1000))
    [] comp.name = "getting_closer_shortest_path" ->
         Sign3(PathDistance(st, comp.object_type), PathDistance(st2, comp.object_type),
               Param(comp, "reward_closer", 1000), Param(comp, "reward_further", -1000))
    [] comp.name = "bump_into_wall" ->
         IF BumpsWall(st, a) THEN Param(comp, "reward", -1000) ELSE 0
    [] comp.name = "actuate_door" ->
         LET f == Front(st)
         IN IF a # "ACTUATE" \/ ~InGrid(st.grid, f) THEN 0
            ELSE LET d == Cell(st.grid, f)
                     d2 == Cell(st2.grid, f)
                 IN IF d.t # "Door" \/ d2.t # "Door" THEN 0
                    ELSE IF d.s # DoorOpen /\ d2.s = DoorOpen THEN Param(comp, "reward_open", 1000)
                    ELSE IF d.s = DoorOpen /\ d2.s # DoorOpen THEN Param(comp, "reward_close", -1000)
                    ELSE 0
    [] comp.name = "pickndrop" ->
         LET has == st.item.t = comp.object_type
             has2 == st2.item.t = comp.object_type
         IN IF ~has /\ has2 THEN Param(comp, "reward_pick", 1000)
            ELSE IF has /\ ~has2 THEN Param(comp, "reward_drop", -1000)
            ELSE 0
    [] comp.name = "collect_coin_reward" ->   \* examples/coin_env.py: the cell entered held a coin in the old state
         IF Cell(st.grid, st2.pos).t = "Coin" THEN Param(comp, "reward", 1000) ELSE 0
    [] comp.name = "reach_exit_memory" ->
         IF OnType(st2, "Exit")
           THEN (IF Cell(st2.grid, st2.pos).c = BeaconColor(st2)
                   THEN Param(comp, "reward_good", 1000) ELSE Param(comp, "reward_bad", -1000))
           ELSE 0
RewardSum(comps, st, a, st2, k) ==
  IF k > Len(comps) THEN 0
  ELSE Reward(comps[k], st, a, st2) + RewardSum(comps, st, a, st2, k + 1)

\* the Euclidean proportional reward r (milli) is rpud * sqrt(d2) up to rounding
EuclidProportionalOK(comp, st2, r) ==
  LET k == Param(comp, "reward_per_unit_distance", -1000)
      d2 == Euclid2(st2.pos, TheObject(st2, comp.object_type))
      m == Abs(r)
  IN /\ (k * d2 # 0 => (r < 0 <=> k < 0))
     /\ (m - 1) * (m - 1) <= k * k * d2 \/ m = 0
     /\ k * k * d2 <= (m + 1) * (m + 1)

\* documented preconditions of a reward component on a triple
RECURSIVE RewardPre(_, _, _)
RewardPre(comp, st, st2) ==
  CASE comp.name = "reduce_sum" ->
         \A i \in DOMAIN comp.reward_functions : RewardPre(comp.reward_functions[i], st, st2)
    [] comp.name = "proportional_to_distance" -> HasUnique(st2, comp.object_type)
    [] comp.name \in {"getting_closer", "getting_closer_shortest_path"} ->
         HasUnique(st, comp.object_type) /\ HasUnique(st2, comp.object_type)
    [] comp.name = "reach_exit_memory" -> FindType(st2.grid, "Beacon") # {}
    [] OTHER -> TRUE

\* ------------------------------------------------------------- terminations
TerminationNames ==
  {"reduce_any", "reduce_all", "overlap", "reach_exit", "bump_moving_obstacle", "bump_into_wall"}
RECURSIVE Terminates(_, _, _, _)
Terminates(comp, st, a, st2) ==
  CASE comp.name = "reduce_any" ->
         \E i \in DOMAIN comp.terminating_functions :
            Terminates(comp.terminating_functions[i], st, a, st2)
    [] comp.name = "reduce_all" ->
         \A i \in DOMAIN comp.terminating_functions :
            Terminates(comp.terminating_functions[i], st, a, st2)
    [] comp.name = "overlap" -> OnType(st2, comp.object_type)
    [] comp.name = "reach_exit" -> OnType(st2, "Exit")
    [] comp.name = "bump_moving_obstacle" -> OnType(st2, "MovingObstacle")
    [] comp.name = "bump_into_wall" -> BumpsWall(st, a)
    [] comp.name = "no_more_coins" -> FindType(st2.grid, "Coin") = {}   \* examples/coin_env.py

\* agreement clauses of C12 -------------------------------------------------
\* an environment with an exit reward pays `on` exactly when exit-termination fires
ExitAgreement(st, a, st2) ==
  \A on, off \in {0, 1000, 5000} :
    on # off =>
      (Reward([name |-> "reach_exit", reward_on |-> on, reward_off |-> off], st, a, st2) = on
         <=> Terminates([name |-> "reach_exit"], st, a, st2))
BumpAgreement(st, a, st2) ==
  (Reward([name |-> "bump_into_wall", reward |-> -1000], st, a, st2) = -1000)
     <=> Terminates([name |-> "bump_into_wall"], st, a, st2)
=============================================================================
