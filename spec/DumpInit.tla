------------------------------ MODULE DumpInit ------------------------------
(***************************************************************************)
(* Writes the generative set Init_<f>(p) of the specification to a JSON    *)
(* file (one array of states), for the winnability search (MC_Win) and for *)
(* comparison with the exact support of the real reset functions.          *)
(* Parameters come from the JSON file named by PARAM_FILE:                 *)
(*   {"f": name, "p": {...}, "out": path}                                  *)
(***************************************************************************)
EXTENDS GVReset, Json, IOUtils, TLC, SequencesExt

Par == JsonDeserialize(IOEnv.PARAM_FILE)
NormP(p) == IF "colors" \in DOMAIN p THEN [p EXCEPT !.colors = ToSet(@)] ELSE p
TheSet ==
  IF Par.f = "memory_rooms"
    THEN Init_memory_rooms_reduced(NormP(Par.p), "RED", "BLUE")
    ELSE InitSet(Par.f, NormP(Par.p))
ASSUME JsonSerialize(Par.out, SetToSeq(TheSet))
ASSUME PrintT(<<"DUMPED", Cardinality(TheSet)>>)
VARIABLE x
Init == x = 0
Next == UNCHANGED x
=============================================================================
