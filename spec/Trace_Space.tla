----------------------------- MODULE Trace_Space -----------------------------
(***************************************************************************)
(* Trace validation of the space-membership predicates (C01):              *)
(* record = a space, a candidate (state / observation / action) and the    *)
(* answer of the implementation's contains().                              *)
(***************************************************************************)
EXTENDS GVState, Json, IOUtils, TLC

Recs == ndJsonDeserialize(IOEnv.TRACE_FILE)
VARIABLE i
vars == <<i>>
Sp(s) == [shape |-> s.shape, types |-> ToSet(s.types), colors |-> ToSet(s.colors)]
Expected(r) ==
  CASE r.kind = "state" -> InStateSpace(Sp(r.space), r.cand)
    [] r.kind = "observation" -> InObservationSpace(Sp(r.space), r.cand)
    [] r.kind = "action" -> InActionSpace(r.space, r.cand)
Report(r) == (r.contains = Expected(r)) \/ PrintT(<<"BAD", r.id, r.kind, r.contains>>)
Init == i = 0
Next == i < Len(Recs) /\ i' = i + 1 /\ Report(Recs[i'])
Done == PrintT(<<"DONE", Len(Recs), TLCGet("distinct")>>)
=============================================================================
