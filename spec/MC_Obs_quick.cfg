INIT Init
NEXT Next
CONSTANTS
  MaxDim = 3
  B = 2
INVARIANT InvPipelineIsPointwise
INVARIANT InvShape
INVARIANT InvAnchor
INVARIANT InvMaskedSound
INVARIANT InvFullShown
INVARIANT InvRotation
INVARIANT InvRotationGroup
CHECK_DEADLOCK FALSE
