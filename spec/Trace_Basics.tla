----------------------------- MODULE Trace_Basics -----------------------------
(***************************************************************************)
(* Conformance of the basic vocabulary the whole specification rests on:   *)
(* object attribute tables (grid_object.py), the action enum (action.py),  *)
(* Grid container operations (grid.py), Agent / State equality, and the    *)
(* derived getters of the spaces (spaces.py).                              *)
(***************************************************************************)
EXTENDS GVRepresentation, GVObservation, Json, IOUtils, TLC

Recs == ndJsonDeserialize(IOEnv.TRACE_FILE)
VARIABLE i
vars == <<i>>
Sp(s) == [shape |-> s.shape, types |-> ToSet(s.types), colors |-> ToSet(s.colors)]
Swap(g, p, q) == SetCell(SetCell(g, p, Cell(g, q)), q, Cell(g, p))
ActionIndex(a) == CHOOSE k \in 0..7 : ActionSeq[k + 1] = a

OK(r) ==
  CASE r.kind = "object" ->
         /\ r.type_index = TypeIndex(r.obj.t)
         /\ r.num_states = NumStates(r.obj.t)
         /\ r.blocks_movement = BlocksMovement(r.obj)
         /\ r.blocks_vision = BlocksVision(r.obj)
         /\ r.holdable = Holdable(r.obj)
         /\ r.representable = (r.obj.t \in StateRepresentableTypes \cup {"NoneGridObject", "Coin", "Gem"})
         /\ WellFormedObj(r.obj, 3)
    [] r.kind = "action" ->
         /\ r.value = ActionIndex(r.name)
         /\ r.is_move = (r.name \in MoveActions)
         /\ r.is_turn = (r.name \in TurnActions)
    [] r.kind = "grid_eq" -> r.eq = GridEq(r.g1, r.g2) /\ (r.eq => r.hasheq)
    [] r.kind = "grid_types" -> ToSet(r.types) = GridTypes(r.g)
    [] r.kind = "grid_get" -> r.res = (IF InGrid(r.g, r.p) THEN Cell(r.g, r.p) ELSE r.default)
    [] r.kind = "grid_swap" -> r.after = Swap(r.g, r.p, r.q)
    \* Grid.subgrid: any area, inside, overlapping or outside the grid; cells beyond the grid are Hidden
    [] r.kind = "grid_subgrid" -> r.res = SubGrid(r.g, r.area)
    [] r.kind = "state_eq" -> r.eq = StateEq(r.s1, r.s2) /\ (r.eq => r.hasheq)
    [] r.kind = "space_getters" ->
         LET sp == Sp(r.space)
         IN /\ r.max_type_index = MaxType(r.which, sp)
            /\ r.max_state_index = MaxStates(r.which, sp)
            /\ r.max_object_color = MaxColor(sp)
            /\ r.grid_state_shape = sp.shape
    [] OTHER -> FALSE
Report(r) == OK(r) \/ PrintT(<<"BAD", r.id, r.kind>>)
Init == i = 0
Next == i < Len(Recs) /\ i' = i + 1 /\ Report(Recs[i'])
Done == PrintT(<<"DONE", Len(Recs), TLCGet("distinct")>>)
=============================================================================
