---------------------------- MODULE MC_GVSym_7x9 ----------------------------
(* Apalache instance of GVSym on a symbolic 7x9 grid: apalache-mc check --init=Init --inv=<lemma> --length=1 *)
EXTENDS Integers
H == 7
W == 9
VARIABLES
  \* @type: <<Int, Int>> -> Int;
  cell,
  \* @type: <<Int, Int>>;
  pos,
  \* @type: Int;
  ori,
  \* @type: Int;
  held,
  \* @type: Int;
  lastAction
INSTANCE GVSym
\* a deliberately false lemma: the checker must refute it (guards against a vacuous set-up)
FalseLemma == lastAction' = 6 => cell' = cell
=============================================================================
