------------------------------- MODULE MC_Step -------------------------------
(***************************************************************************)
(* Model checking the transition components against the declarative rules  *)
(* on small scopes: from every state of a family, under every action and   *)
(* every composition of the list, every outcome of Step satisfies the      *)
(* closure, kinematics, conservation, door/box and stochastic rules, and   *)
(* the reward/termination agreement clauses.                               *)
(***************************************************************************)
EXTENDS GVFamilies

CONSTANTS Shapes,      \* set of <<h, w>>
          MaxNonFloor, \* bound on non-floor cells (Unbounded for all fillings)
          AlphaSub,    \* sub-alphabet used for cells
          HeldSub,     \* held items
          CompNames,   \* which compositions of Comps to use
          ShardIdx, NShards \* this run covers grids whose first cell has AlphaIndex % NShards = ShardIdx

Unbounded == 99
ShapesLine == {<<1, 2>>, <<2, 1>>}
Shapes11 == {<<1, 1>>}
Shapes22 == {<<2, 2>>}
Shapes33 == {<<3, 3>>}
Shapes23 == {<<2, 3>>, <<3, 2>>}
FullAlpha == AlphaSet
SmallAlpha == {Floor, Wall, Exit("NONE"), Door(DoorLocked, "RED"), Key("RED"), Obstacle,
               Box(Key("RED")), Telepod("RED")}
FullHeld == ToSet(HeldSeq)
SmallHeld == {NoneObj, Key("RED")}
NoHeld == {NoneObj}
StochAlpha == {Floor, Wall, Obstacle, Exit("NONE"), Key("RED"), Telepod("RED"), Telepod("BLUE")}

C(n) == [name |-> n]
Comps ==
  [basic |-> <<C("move_agent"), C("turn_agent")>>,
   keydoor |-> <<C("move_agent"), C("turn_agent"), C("actuate_door"), C("pickndrop")>>,
   obstacles |-> <<C("move_agent"), C("turn_agent"), C("move_obstacles")>>,
   teleport |-> <<C("move_agent"), C("turn_agent"), C("teleport")>>,
   all |-> <<C("move_agent"), C("turn_agent"), C("actuate_door"), C("actuate_box"),
             C("pickndrop"), C("move_obstacles"), C("teleport")>>,
   all2 |-> <<C("turn_agent"), C("pickndrop"), C("actuate_box"), C("actuate_door"),
              C("move_agent"), C("move_obstacles"), C("teleport")>>,
   nested |-> <<[name |-> "chain", transition_functions |-> <<C("move_agent"), C("turn_agent")>>],
                [name |-> "chain", transition_functions |->
                   <<C("actuate_door"),
                     [name |-> "chain", transition_functions |-> <<C("actuate_box"), C("pickndrop")>>]>>],
                C("move_obstacles"), C("teleport")>>]

VARIABLES st, kname, act, st2
vars == <<st, kname, act, st2>>

Grids(h, w) == [1..h -> [1..w -> AlphaSub]]
GridWith(h, w, f) ==
  [y \in 1..h |-> [x \in 1..w |-> IF <<y - 1, x - 1>> \in DOMAIN f THEN f[<<y - 1, x - 1>>] ELSE Floor]]
AllPos(h, w) == Positions(<<<<0, h - 1>>, <<0, w - 1>>>>)
\* grids with at most MaxNonFloor non-floor cells, built constructively
FamilyGrids(h, w) ==
  IF MaxNonFloor >= h * w THEN Grids(h, w)
  ELSE UNION {{GridWith(h, w, f) : f \in [P -> AlphaSub \ {Floor}]} :
                P \in {Q \in SUBSET AllPos(h, w) : Cardinality(Q) <= MaxNonFloor}}
RECURSIVE ShardSum(_, _)
ShardSum(g, k) ==
  IF k > GHeight(g) * GWidth(g) THEN 0
  ELSE AlphaIndex(Cell(g, RowMajor(g)[k])) * k + ShardSum(g, k + 1)
ShardKey(g) == ShardSum(g, 1)
Family ==
  UNION {{St(g, p, o, it) : g \in {gg \in FamilyGrids(sh[1], sh[2]) :
                                     ShardKey(gg) % NShards = ShardIdx},
                            p \in AllPos(sh[1], sh[2]), o \in Oris, it \in HeldSub} : sh \in Shapes}

Init == st \in Family /\ kname = "" /\ act = "" /\ st2 = st
Next ==
  /\ kname = ""
  /\ kname' \in CompNames
  /\ act' \in AllActions
  /\ st2' \in Step(Comps[kname'], st, act')
  /\ st' = st

Sp == FamilySpace(Shape(st.grid))

\* invariants, evaluated on every (st, composition, action, outcome)
Taken == kname # ""
K == Comps[kname]
FlagsOf == [n \in DOMAIN Comps |-> Flags(Comps[n])]
F == FlagsOf[kname]
InvShaped == Taken => F.shaped
InvClosure == Taken => InStateSpace(Sp, st2)
InvKinematics == Taken => KinematicsRule(F, st, act, st2)
InvAgentOK == Taken /\ AgentOK(st) => AgentOK(st2)
InvConservation == Taken => ConservationRule(F, st, act, st2)
InvDoor == Taken => DoorRule(F, st, act, st2)
InvTurnsCompose == \* left then right, and four equal turns, restore the heading
  \A o \in Oris : Mul(Mul(o, "L"), "R") = o /\ Mul(Mul(Mul(Mul(o, "L"), "L"), "L"), "L") = o
                  /\ Mul(Mul(Mul(Mul(o, "R"), "R"), "R"), "R") = o
InvExitAgreement == Taken => ExitAgreement(st, act, st2)
InvBumpAgreement == Taken => BumpAgreement(st, act, st2)
\* the stochastic components alone
InvObstacle ==
  ~Taken /\ Cardinality(Obstacles(st.grid)) <= 3 =>
     \A s \in MoveObstacles(st) : ObstacleRule(st, s) /\ ObstacleRuleWeak(st, s)
InvObstacleComplete == \* every free neighbour of the first obstacle is a possible destination
  ~Taken /\ Obstacles(st.grid) # {} =>
     LET p == ObstacleSeq(st.grid)[1]
     IN \A q \in FreeNeighbours(st.grid, p) :
          \E s \in MoveObstacles(st) : Cell(s.grid, q).t = "MovingObstacle" /\ ~(Cell(s.grid, p).t = "MovingObstacle" /\ Len(ObstacleSeq(st.grid)) = 1)
InvTeleport == ~Taken => \A s \in Teleport(st) : TeleportRule(st, s)
InvTeleportComplete ==
  ~Taken /\ Cell(st.grid, st.pos).t = "Telepod" =>
     \A p \in TelepodPartners(st) : \E s \in Teleport(st) : s.pos = p
=============================================================================
