------------------------------ MODULE GVConfig ------------------------------
(***************************************************************************)
(* Configurations (envs/yaml/factory.py, schemas.py, utils/registry.py,    *)
(* utils/functions.py): the registry tables of the built-in components     *)
(* (required / optional parameters), and the verdict of the validation on  *)
(* systematic single corruptions of a configuration.                       *)
(*                                                                         *)
(* A configuration arrives as JSON (PARAM_FILE): the YAML data of a        *)
(* shipped file.  TLC enumerates the corruption descriptors that apply to  *)
(* it, each with the verdict the specification gives ("reject" or          *)
(* "accept"); the harness applies every descriptor to the real data,       *)
(* passes it to factory_env_from_data and compares.                        *)
(***************************************************************************)
EXTENDS Integers, Sequences, FiniteSets, TLC, Json, IOUtils

Cfg == JsonDeserialize(IOEnv.PARAM_FILE)

\* registry tables: kind -> name -> [req, opt]
E(req, opt) == [req |-> req, opt |-> opt]
Registry ==
  [reset |->
     [empty |-> E({"shape"}, {"random_agent", "random_exit"}),
      rooms |-> E({"shape", "layout"}, {}),
      dynamic_obstacles |-> E({"shape", "num_obstacles"}, {"random_agent"}),
      keydoor |-> E({"shape"}, {}),
      crossing |-> E({"shape", "num_rivers", "object_type"}, {}),
      teleport |-> E({"shape"}, {}),
      memory |-> E({"shape", "colors"}, {}),
      memory_rooms |-> E({"shape", "layout", "colors", "num_beacons", "num_exits"}, {}),
      coin_maze |-> E({}, {})],     \* examples/coin_env.py
   transition |->
     [chain |-> E({"transition_functions"}, {}),
      move_agent |-> E({}, {}), turn_agent |-> E({}, {}), pickndrop |-> E({}, {}),
      move_obstacles |-> E({}, {}), actuate_door |-> E({}, {}), actuate_box |-> E({}, {}), teleport |-> E({}, {}),
      collect_coin_transition |-> E({}, {})],
   reward |->
     [reduce |-> E({"reward_functions", "reduction"}, {}),
      reduce_sum |-> E({"reward_functions"}, {}),
      overlap |-> E({"object_type"}, {"reward_on", "reward_off"}),
      living_reward |-> E({}, {"reward"}),
      reach_exit |-> E({}, {"reward_on", "reward_off"}),
      bump_moving_obstacle |-> E({}, {"reward"}),
      proportional_to_distance |-> E({"object_type"}, {"distance_function", "reward_per_unit_distance"}),
      getting_closer |-> E({"object_type"}, {"distance_function", "reward_closer", "reward_further"}),
      getting_closer_shortest_path |-> E({"object_type"}, {"reward_closer", "reward_further"}),
      bump_into_wall |-> E({}, {"reward"}),
      actuate_door |-> E({}, {"reward_open", "reward_close"}),
      pickndrop |-> E({"object_type"}, {"reward_pick", "reward_drop"}),
      reach_exit_memory |-> E({}, {"reward_good", "reward_bad"}),
      collect_coin_reward |-> E({}, {"reward"})],
   terminating |->
     [reduce |-> E({"terminating_functions", "reduction"}, {}),
      reduce_any |-> E({"terminating_functions"}, {}),
      reduce_all |-> E({"terminating_functions"}, {}),
      overlap |-> E({"object_type"}, {}),
      reach_exit |-> E({}, {}), bump_moving_obstacle |-> E({}, {}), bump_into_wall |-> E({}, {}),
      no_more_coins |-> E({}, {})],
   observation |->
     [from_visibility |-> E({"area", "visibility_function"}, {}),
      fully_transparent |-> E({"area"}, {}), partially_occluded |-> E({"area"}, {}),
      raytracing |-> E({"area"}, {}), stochastic_raytracing |-> E({"area"}, {})],
   visibility |->
     [fully_transparent |-> E({}, {}), partially_occluded |-> E({}, {}),
      raytracing |-> E({}, {"absolute_counts", "threshold"}), stochastic_raytracing |-> E({}, {})]]

Known(kind, name) == name \in DOMAIN Registry[kind]
Required(kind, name) == Registry[kind][name].req
Accepted(kind, name) == Registry[kind][name].req \cup Registry[kind][name].opt
\* select_kwargs: parameters a component does not accept are dropped
Select(kind, comp) == [k \in (DOMAIN comp \cap Accepted(kind, comp.name)) |-> comp[k]]
ComponentOK(kind, comp) == Known(kind, comp.name) /\ Required(kind, comp.name) \subseteq DOMAIN comp

\* component slots of a configuration: <<kind, path>> where path locates the mapping
Slots ==
  {<<"reset", <<"reset_function">>>>, <<"observation", <<"observation_function">>>>,
   <<"terminating", <<"terminating_function">>>>}
  \cup {<<"transition", <<"transition_functions", i>>>> : i \in DOMAIN Cfg.transition_functions}
  \cup {<<"reward", <<"reward_functions", i>>>> : i \in DOMAIN Cfg.reward_functions}
  \cup (IF "terminating_functions" \in DOMAIN Cfg.terminating_function
          THEN {<<"terminating", <<"terminating_function", "terminating_functions", i>>>> :
                  i \in DOMAIN Cfg.terminating_function.terminating_functions}
          ELSE {})
RECURSIVE At(_, _)
At(v, path) == IF path = <<>> THEN v ELSE At(v[Head(path)], Tail(path))
CompAt(slot) == At(Cfg, slot[2])

RewardKeys == {"reward", "reward_on", "reward_off", "reward_per_unit_distance", "reward_closer", "reward_further",
               "reward_open", "reward_close", "reward_pick", "reward_drop", "reward_good", "reward_bad"}
TopKeys == {"state_space", "observation_space", "reset_function", "transition_functions", "reward_functions",
            "observation_function", "terminating_function"}
Desc(kind, path, key, value, verdict) == [kind |-> kind, path |-> path, key |-> key, value |-> value, verdict |-> verdict]

\* every single corruption of the listed kinds, with the verdict of the specification
Corruptions ==
  \* unknown component name in every slot
  {Desc("set_name", s[2], "name", "no_such_component", "reject") : s \in Slots}
  \* every present parameter removed: rejected iff it is required
  \cup UNION {{Desc("remove_param", s[2], k, "", IF k \in Required(s[1], CompAt(s).name) THEN "reject" ELSE "accept")
                 : k \in DOMAIN CompAt(s) \ {"name"}} : s \in Slots}
  \* an unknown extra parameter is ignored
  \cup {Desc("add_param", s[2], "no_such_parameter", "1", "accept") : s \in Slots}
  \* falsy but valid parameter values must be passed on, not treated as absent
  \cup UNION {{Desc("set_value", s[2], k, "0.0", "accept") : k \in (DOMAIN CompAt(s) \cap RewardKeys)}
              \cup {Desc("set_value", s[2], k, "false", "accept") : k \in (DOMAIN CompAt(s) \cap {"random_agent", "random_exit"})}
              \cup {Desc("set_value", s[2], k, "0", "accept") : k \in (DOMAIN CompAt(s) \cap {"num_obstacles"})}
              : s \in Slots}
  \* malformed shapes
  \cup (IF "shape" \in DOMAIN Cfg.reset_function
          THEN {Desc("set_value", <<"reset_function">>, "shape", v, "reject") :
                  v \in {"[5]", "[5,5,5]", "[0,5]", "[5,-1]", "[5.5,5]", "[\"a\",5]", "5", "[]"}}
          ELSE {})
  \cup (IF "layout" \in DOMAIN Cfg.reset_function
          THEN {Desc("set_value", <<"reset_function">>, "layout", v, "reject") : v \in {"[2]", "[0,2]", "[2,2,2]", "[1.5,2]"}}
               \cup {Desc("set_value", <<"reset_function">>, "layout", "[1,2]", "accept")}
          ELSE {})
  \* valid non-square shapes (height and width must not be confused anywhere on the way)
  \cup (IF "shape" \in DOMAIN Cfg.reset_function
          THEN {Desc("set_value", <<"reset_function">>, "shape", v, "accept") : v \in {"[7,9]", "[9,7]"}}
          ELSE {})
  \* colours: unknown names, duplicates, empty lists
  \cup UNION {{Desc("set_value", <<sp>>, "colors", v, "reject") : v \in {"[\"NONE\",\"PURPLE\"]", "[\"RED\",\"RED\"]", "[]", "[1]"}}
                : sp \in {"state_space", "observation_space"}}
  \cup (IF "colors" \in DOMAIN Cfg.reset_function
          THEN {Desc("set_value", <<"reset_function">>, "colors", v, "reject") : v \in {"[\"RED\",\"PURPLE\"]", "[\"RED\",\"RED\"]", "[]"}}
          ELSE {})
  \* object types
  \cup UNION {{Desc("set_value", <<sp>>, "objects", v, "reject") : v \in {"[\"Wall\",\"NoSuchObject\"]", "[\"Wall\",\"Wall\"]", "[]"}}
                : sp \in {"state_space", "observation_space"}}
  \* actions
  \cup {Desc("set_top", <<>>, "action_space", v, "reject") :
          v \in {"[\"MOVE_FORWARD\",\"JUMP\"]", "[\"MOVE_FORWARD\",\"MOVE_FORWARD\"]", "[]"}}
  \cup {Desc("set_top", <<>>, "action_space", v, "accept") :
          v \in {"[\"MOVE_FORWARD\",\"TURN_LEFT\",\"TURN_RIGHT\"]", "[\"TURN_RIGHT\",\"MOVE_FORWARD\",\"TURN_LEFT\",\"MOVE_BACKWARD\"]"}}
  \* object_type / distance_function parameters
  \cup UNION {(IF "object_type" \in DOMAIN CompAt(s)
                 THEN {Desc("set_value", s[2], "object_type", "\"NoSuchObject\"", "reject")} ELSE {})
              \cup (IF "distance_function" \in DOMAIN CompAt(s)
                      THEN {Desc("set_value", s[2], "distance_function", "\"chebyshev\"", "reject")} ELSE {})
              : s \in Slots}
  \* a mapping is unordered: the same parameters written in the opposite order describe the same component
  \cup {Desc("reverse_params", s[2], "", "", "accept") : s \in {t \in Slots : Cardinality(DOMAIN CompAt(t)) >= 3}}
  \* valid rewrites of the observation function: the same area seen through from_visibility with a nested visibility
  \* function, with and without parameters (nested parameters must reach the function: "threshold" / "absolute_counts"
  \* are accepted by raytracing only), and with a nested parameter nobody accepts (ignored) or an unknown nested name
  \cup {Desc("wrap_visibility", <<"observation_function">>, "visibility_function", v, "accept") :
          v \in {"{\"name\":\"raytracing\"}", "{\"name\":\"raytracing\",\"absolute_counts\":false,\"threshold\":0.8}",
                 "{\"name\":\"raytracing\",\"absolute_counts\":true,\"threshold\":3}",
                 "{\"name\":\"partially_occluded\"}", "{\"name\":\"fully_transparent\",\"threshold\":3}",
                 "{\"name\":\"stochastic_raytracing\"}"}}
  \cup {Desc("wrap_visibility", <<"observation_function">>, "visibility_function", "{\"name\":\"no_such_visibility\"}", "reject"),
        Desc("wrap_visibility", <<"observation_function">>, "visibility_function", "{\"threshold\":3}", "reject")}
  \* missing top-level keys
  \cup {Desc("remove_top", <<>>, k, "", "reject") : k \in TopKeys}
  \cup (IF "action_space" \in DOMAIN Cfg THEN {Desc("remove_top", <<>>, "action_space", "", "accept")} ELSE {})
  \* empty component lists
  \cup {Desc("set_top", <<>>, k, "[]", "reject") : k \in {"transition_functions", "reward_functions"}}

\* the unmodified configuration is valid
BaseValid ==
  /\ TopKeys \subseteq DOMAIN Cfg
  /\ \A s \in Slots : ComponentOK(s[1], CompAt(s))

VARIABLE c
Init == c \in Corruptions
Next == UNCHANGED c
InvBaseValid == BaseValid
Emit == PrintT(<<"CORR", c.kind, c.path, c.key, c.value, c.verdict>>)
=============================================================================
