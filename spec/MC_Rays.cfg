INIT Init
NEXT Next
INVARIANT InvUnobstructed
INVARIANT InvSelf
INVARIANT InvChain
CHECK_DEADLOCK FALSE
