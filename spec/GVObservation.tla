---------------------------- MODULE GVObservation ----------------------------
(***************************************************************************)
(* Observation functions (envs/observation_functions.py, Grid.subgrid):    *)
(* the pipeline of the code (transform the area, slice with Hidden         *)
(* padding, rotate, mask) and the pointwise statement of C05.              *)
(***************************************************************************)
EXTENDS GVVisibility

PovArea(st, A) == TApplyArea(Pose(st), A)
SubGrid(g, A) ==
  [i \in 1..AHeight(A) |-> [j \in 1..AWidth(A) |->
     LET q == <<AYMin(A) + i - 1, AXMin(A) + j - 1>>
     IN IF InGrid(g, q) THEN Cell(g, q) ELSE Hidden]]
\* the unmasked egocentric view
ViewGrid(st, A) == RotGrid(st.ori, SubGrid(st.grid, PovArea(st, A)))
ViewAgentPos(A) == <<-AYMin(A), -AXMin(A)>>
Mask(g, V) ==
  [i \in 1..GHeight(g) |-> [j \in 1..GWidth(g) |-> IF <<i - 1, j - 1>> \in V THEN g[i][j] ELSE Hidden]]
\* observation given the set V of visible view cells
ObsWith(st, A, V) == St(Mask(ViewGrid(st, A), V), ViewAgentPos(A), "F", st.item)

\* C05 pointwise: view cell <<i, j>> (0-based) looks at this world cell
WorldCellOf(st, A, c) == PAdd(st.pos, Rot(st.ori, <<AYMin(A) + c[1], AXMin(A) + c[2]>>))
WorldAt(st, A, c) ==
  LET q == WorldCellOf(st, A, c) IN IF InGrid(st.grid, q) THEN Cell(st.grid, q) ELSE Hidden
ViewPointwise(st, A) ==
  [i \in 1..AHeight(A) |-> [j \in 1..AWidth(A) |-> WorldAt(st, A, <<i - 1, j - 1>>)]]

\* soundness of an observation `ob` of state st through area A
ObsShapeOK(ob, A) == IsRectangular(ob.grid) /\ Shape(ob.grid) = <<AHeight(A), AWidth(A)>>
ObsAgentOK(st, ob, A) == ob.pos = ViewAgentPos(A) /\ ob.ori = "F" /\ ob.item = st.item
ObsCellsSound(st, ob, A) ==
  \A c \in GPositions(ob.grid) :
     \/ Cell(ob.grid, c) = Hidden
     \/ (InGrid(st.grid, WorldCellOf(st, A, c)) /\ Cell(ob.grid, c) = Cell(st.grid, WorldCellOf(st, A, c)))
ObsAllShown(st, ob, A) == \* fully transparent: every in-grid cell of the view is shown
  \A c \in GPositions(ob.grid) : Cell(ob.grid, c) = WorldAt(st, A, c)
ObsSound(st, ob, A) == ObsShapeOK(ob, A) /\ ObsAgentOK(st, ob, A) /\ ObsCellsSound(st, ob, A)

\* visible cells of an observation function (deterministic ones)
VisibleSet(fname, g, p, fan) ==
  CASE fname = "fully_transparent" -> FullyTransparent(g, p)
    [] fname = "partially_occluded" -> PartiallyOccluded(g, p)
    [] fname = "raytracing" -> Raytracing(g, fan)
Obs(fname, st, A, fan) ==
  ObsWith(st, A, VisibleSet(fname, ViewGrid(st, A), ViewAgentPos(A), fan))

\* rotation of the whole world (C07)
RotWorld(r, st) ==
  St(RotGrid(r, st.grid), RotGridPos(r, st.grid, st.pos), Mul(Neg(r), st.ori), st.item)
=============================================================================
