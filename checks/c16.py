"""C16 - numeric representations are faithful: lossless, positional and well-separated."""
from harness.checklib import main
from checks.c15 import run_prop


def run(ctx, replay=None):
    return run_prop(ctx, 'C16', replay)


if __name__ == '__main__':
    main(run, 'C16')
