"""C01 - every step from a valid state is a valid transition (closure and totality)."""
import json
import os
import random

from harness import boot  # noqa
from harness import build, config, envreplay, obs as obsh, proj, steps
from harness.checklib import main
from harness.tlc import run_many
from checks import obscommon as oc, stepcommon as sc
from checks.c04 import replay_all

from gym_gridverse.action import Action
from gym_gridverse.debugging import reset_gv_debug

PREFIX = ['C01']
O = steps.O


def membership_records(rng, n_spaces):
    recs = []
    rid = 0
    all_types = steps.FAMILY_TYPES
    for _ in range(n_spaces):
        types = rng.sample(all_types, rng.randint(2, len(all_types)))
        if 'Floor' not in types:
            types.append('Floor')
        colors = rng.sample(['RED', 'GREEN', 'BLUE', 'YELLOW'], rng.randint(0, 4))
        for kind in ('state', 'observation'):
            h, w = (rng.randint(1, 4), rng.randint(1, 4)) if kind == 'state' else (rng.randint(1, 4), rng.choice([1, 3, 5]))
            space = {'shape': [h, w], 'types': types, 'colors': colors}
            sp = build.state_space(space) if kind == 'state' else build.observation_space(space)
            mk = proj.state_from_json if kind == 'state' else proj.obs_from_json
            from harness import reps
            base = reps.random_member(rng, kind, space)
            cands = [('member', base)]
            other = [t for t in all_types + ['Hidden'] if t not in types and not (kind == 'observation' and t == 'Hidden')]
            # single faults
            for dh, dw in ((1, 0), (0, 2), (-1, 0)):
                if h + dh >= 1 and w + dw >= 1:
                    g = [[steps.FLOOR for _ in range(w + dw)] for _ in range(h + dh)]
                    cands.append(('shape', dict(base, grid=g, pos=[0, 0])))
            if other:
                c = json.loads(json.dumps(base))
                t = rng.choice(other)
                c['grid'][rng.randrange(h)][rng.randrange(w)] = O('Box', 0, 'NONE', O('Floor')) if t == 'Box' else O(t, 0, 'NONE')
                cands.append(('cell type', c))
                c2 = json.loads(json.dumps(base))
                t = rng.choice(other)
                c2['item'] = O('Box', 0, 'NONE', O('Floor')) if t == 'Box' else O(t, 0, 'NONE')
                cands.append(('item type', c2))
            for pos in ([-1, 0], [0, -1], [h, 0], [0, w], [h - 1, w - 1], [0, 0]):
                cands.append(('agent position', dict(base, pos=pos)))
            if kind == 'observation':
                undeclared = [c for c in ['RED', 'GREEN', 'BLUE', 'YELLOW'] if c not in colors]
                coloured = [t for t in types if t in ('Exit', 'Key', 'Telepod', 'Beacon', 'Door')]
                if undeclared and coloured:
                    c = json.loads(json.dumps(base))
                    c['grid'][0][0] = O(coloured[0], 0, undeclared[0])
                    cands.append(('cell colour', c))
                    c2 = json.loads(json.dumps(base))
                    c2['item'] = O(coloured[0], 0, undeclared[0])
                    cands.append(('item colour', c2))
                cands.append(('hidden item', dict(base, item=proj.HIDDEN)))
                cands.append(('none in grid', dict(base, grid=[[proj.NONE_OBJ if (y, x) == (0, 0) else o for x, o in enumerate(row)] for y, row in enumerate(base['grid'])])))
            for label, cand in cands:
                try:
                    ans = bool(sp.contains(mk(cand)))
                except Exception as e:
                    ans = 'raise:' + type(e).__name__
                recs.append({'id': rid, 'kind': kind, 'space': space, 'cand': cand, 'contains': ans, 'label': label})
                rid += 1
        acts = rng.sample(steps.ACTIONS, rng.randint(1, 8))
        asp = build.action_space(acts)
        for a in steps.ACTIONS:
            recs.append({'id': rid, 'kind': 'action', 'space': acts, 'cand': a, 'contains': bool(asp.contains(Action[a])), 'label': 'action'})
            rid += 1
    return recs


def basics_part(ctx, rng):
    """the vocabulary everything else rests on (object attribute tables, action enum, Grid / Agent / State basics, space getters)
    against the specification; mismatches are drift (they would surface as violations of the properties that use them)"""
    from harness import reps
    from harness.tlc import run_tlc
    from gym_gridverse.grid_object import Floor as FloorCls
    from harness import custom  # noqa: F401  (Coin, then Gem: the registration order of the specification's TypeSeq)
    recs = []
    objs = reps.objects_of(steps.FAMILY_TYPES, steps.ALL_COLORS[1:]) + [proj.NONE_OBJ, proj.HIDDEN, O('Box', 0, 'NONE', O('Box', 0, 'NONE', O('Key', 0, 'RED'))), O('Coin'), O('Gem')]
    for oj in objs:
        o = proj.obj_from_json(oj)
        recs.append({'kind': 'object', 'obj': proj.obj_to_json(o), 'type_index': int(type(o).type_index()), 'num_states': int(type(o).num_states()),
                     'blocks_movement': bool(o.blocks_movement), 'blocks_vision': bool(o.blocks_vision), 'holdable': bool(o.holdable),
                     'representable': bool(type(o).can_be_represented_in_state())})
    for a in Action:
        recs.append({'kind': 'action', 'name': a.name, 'value': int(a.value), 'is_move': bool(a.is_move()), 'is_turn': bool(a.is_turn())})
    for _ in range(150 if ctx.quick else 3000):
        h, w = rng.randint(1, 4), rng.randint(1, 4)
        space = {'shape': [h, w], 'types': steps.FAMILY_TYPES, 'colors': steps.ALL_COLORS[1:]}
        s1 = reps.random_member(rng, 'state', space)
        s2 = rng.choice([s1, reps.mutate_one_field(rng, 'state', space, s1), reps.random_member(rng, 'state', space)])
        a, b = proj.state_from_json(s1), proj.state_from_json(s2)
        recs.append({'kind': 'grid_eq', 'g1': s1['grid'], 'g2': s2['grid'], 'eq': bool(a.grid == b.grid), 'hasheq': hash(a.grid) == hash(b.grid)})
        recs.append({'kind': 'state_eq', 's1': s1, 's2': s2, 'eq': bool(a == b), 'hasheq': hash(a.agent) == hash(b.agent) and hash(a.grid) == hash(b.grid)})
        recs.append({'kind': 'grid_types', 'g': s1['grid'], 'types': sorted(t.__name__ for t in a.grid.object_types())})
        p = [rng.randint(0, h + 1), rng.randint(0, w + 1)]
        got = a.grid.get((p[0], p[1]), factory=FloorCls)
        recs.append({'kind': 'grid_get', 'g': s1['grid'], 'p': p, 'default': steps.FLOOR, 'res': proj.obj_to_json(got)})
        from gym_gridverse.geometry import Position
        pp, qq = [rng.randrange(h), rng.randrange(w)], [rng.randrange(h), rng.randrange(w)]
        c = proj.state_from_json(s1)
        c.grid.swap(Position(*pp), Position(*qq))
        recs.append({'kind': 'grid_swap', 'g': s1['grid'], 'p': pp, 'q': qq, 'after': proj.grid_to_json(c.grid)})
        from gym_gridverse.geometry import Area
        # subgrid: the whole grid exactly, a superset with unequal overhangs, a window, a partly / fully outside area
        y0, x0 = rng.randint(-3, h), rng.randint(-3, w)
        kind_ = rng.randrange(4)
        if kind_ == 0:
            ar = [[0, h - 1], [0, w - 1]]
        elif kind_ == 1:
            ar = [[-rng.randint(0, 3), h - 1 + rng.randint(0, 3)], [-rng.randint(0, 3), w - 1 + rng.randint(0, 3)]]
        else:
            ar = [[y0, y0 + rng.randint(0, h + 2)], [x0, x0 + rng.randint(0, w + 2)]]
        sub = a.grid.subgrid(Area((ar[0][0], ar[0][1]), (ar[1][0], ar[1][1])))
        recs.append({'kind': 'grid_subgrid', 'g': s1['grid'], 'area': ar, 'res': proj.grid_to_json(sub)})
    for _ in range(40 if ctx.quick else 400):
        types = rng.sample(reps.STATE_TYPES, rng.randint(1, len(reps.STATE_TYPES)))
        colors = rng.sample(reps.REAL_COLORS, rng.randint(0, 4))
        for which in ('state', 'observation'):
            space = {'shape': [rng.randint(2, 5), rng.choice([3, 5])], 'types': types, 'colors': colors}
            sp = build.state_space(space) if which == 'state' else build.observation_space(space)
            recs.append({'kind': 'space_getters', 'which': which, 'space': space, 'max_type_index': int(sp.max_type_index), 'max_state_index': int(sp.max_state_index),
                         'max_object_color': int(sp.max_object_color), 'grid_state_shape': list(sp.grid_state_shape.as_tuple)})
    for k, r in enumerate(recs):
        r['id'] = k
    path = os.path.join(ctx.work, 'basics.ndjson')
    with open(path, 'w') as f:
        for r in recs:
            f.write(json.dumps(r, separators=(',', ':')) + '\n')
    res = run_tlc('Trace_Basics', env={'TRACE_FILE': path}, workers=1, timeout=1200)
    ctx.add_tlc(res, 'Trace_Basics (object attribute tables, action enum, Grid/State basics, space getters)')
    if res.find('DONE')[0][1] != len(recs):
        raise RuntimeError('Trace_Basics did not validate every record')
    for t in res.find('BAD'):
        r = recs[t[1]]
        ctx.drift(f"basic vocabulary differs from the specification: {r['kind']} {json.dumps({k: v for k, v in r.items() if k not in ('g', 'g1', 'g2', 's1', 's2', 'after')})[:200]}")
    ctx.add_counts(evaluations=len(recs), traces=len(recs))
    ctx.add_part('basic vocabulary vs specification', records=len(recs), mismatches=len(res.find('BAD')))
    os.remove(path)


def run(ctx, replay=None):
    if replay:
        art = json.load(open(replay))['replay']
        if art.get('kind') == 'step':
            return sc.replay_step(ctx, replay)
        if art.get('kind') == 'obs':
            return oc.replay_obs(ctx, replay, ['C01', 'C05.raise'])
    rng = random.Random(ctx.seed)
    ctx.cov['rule'] = ('(i) GridWorld.functional_step with debug checks on, over the exhaustive small-scope families x 8 actions x compositions x the shipped reward / termination '
                       'lists, all random outcomes: no raise, next state in the state space, float reward, bool flag (TLC, Trace_Step); (ii) functional_observation of family and random '
                       'states for every built-in observation function lies in the observation space (Trace_Obs); (iii) actions outside the action space: ValueError and nothing '
                       'changes (GVEnv behaviours replayed); (iv) contains() of the three spaces on members and single-fault mutants equals the specification predicates (Trace_Space); '
                       '(v) random walks of all shipped configurations; distinct_nontrivial = distinct (state, action, next) with next # state')
    ctx.assumptions += ['documented preconditions: distance rewards need exactly one object of the type (not used here); partially_occluded needs ymax = 0; ray tracing needs the agent in the view',
                        'states carry only colours their space declares (StateSpace.contains does not test colours)']
    sc.mc_step(ctx, 'line', 'ShapesLine', None, 'FullAlpha', 'FullHeld',
               ['all', 'nested'] if ctx.quick else ['basic', 'keydoor', 'obstacles', 'teleport', 'all', 'all2', 'nested'], sc.MC_STEP_INVARIANTS['C01'])
    sc.mc_step(ctx, 'local33', 'Shapes33', 1 if ctx.quick else 2, 'FullAlpha', 'SmallHeld', ['all2'], sc.MC_STEP_INVARIANTS['C01'])
    # (i) closure and totality of functional_step
    for cname in (['all', 'nested'] if ctx.quick else ['basic', 'keydoor', 'obstacles', 'teleport', 'all', 'all2', 'nested', 'unshaped']):
        for (h, w) in [(1, 2), (2, 1), (1, 1)]:
            sc.run_step_part(ctx, f'cell{h}x{w}_{cname}', sc.cell_jobs(h, w),
                             dict(comps=steps.COMPOSITIONS[cname], space=steps.family_space(h, w), via='gridworld',
                                  rew=steps.R_SHIPPED, term=steps.TERM_SHIPPED, want=['C01', 'DRIFT']),
                             PREFIX, exhaustive_family=f'S-cell {h}x{w}: {steps.cell_family_size(h, w)} states x 8 actions', drift=True)
    for (h, w, k) in ([(3, 3, 1)] if ctx.quick else [(3, 3, 1), (2, 3, 2), (3, 2, 2), (3, 3, 2)]):
        helds = steps.HELD if k == 1 else steps.HELD[:2]
        sc.run_step_part(ctx, f'local{h}x{w}k{k}_all', sc.local_jobs(h, w, k, helds=helds),
                         dict(comps=steps.COMPOSITIONS['all'], space=steps.family_space(h, w), via='gridworld',
                              rew=steps.R_SHIPPED, term=steps.TERM_SHIPPED, want=['C01', 'DRIFT']), PREFIX, drift=True)
    # every reward / termination component, distance shaping included, on states that meet its precondition
    # (exactly one Exit and a Beacon), wide, tall and square shapes, unwalled
    C = steps.C
    R_ALL = C('reduce_sum', reward_functions=steps.R_SHIPPED['reward_functions'] + [
        C('proportional_to_distance', object_type='Exit', distance_function='manhattan', reward_per_unit_distance=-100),
        C('getting_closer', object_type='Exit', distance_function='manhattan', reward_closer=200, reward_further=-200),
        C('getting_closer', object_type='Exit', distance_function='euclidean'),
        C('getting_closer_shortest_path', object_type='Exit', reward_closer=250, reward_further=-250),
        C('overlap', object_type='Beacon'), C('reach_exit_memory', reward_good=5000, reward_bad=-5000)])
    T_ALL_TERMS = C('reduce_any', terminating_functions=[C('reduce_all', terminating_functions=[C('reach_exit'), C('overlap', object_type='Exit')]),
                                                        C('bump_moving_obstacle'), C('bump_into_wall')])
    jobs = []
    rid = 0
    for (h, w) in ([(1, 4), (4, 1), (2, 4), (4, 2), (3, 5), (5, 3), (3, 3)] if ctx.quick else [(1, 4), (4, 1), (2, 4), (4, 2), (3, 5), (5, 3), (3, 3), (2, 7), (7, 2), (4, 6), (6, 4)]):
        cells = [(y, x) for y in range(h) for x in range(w)]
        for e in cells:
            others = [c for c in cells if c != e]
            b = others[(e[0] * 3 + e[1]) % len(others)]
            extras = [None] + [(others[(e[0] + e[1] * 2 + k + 1) % len(others)], o) for k, o in enumerate([O('Wall'), O('Door', 1, 'RED'), O('MovingObstacle')])]
            for extra in extras:
                grid = [[steps.FLOOR for _ in range(w)] for _ in range(h)]
                grid[b[0]][b[1]] = O('Beacon', 0, 'RED')
                if extra is not None and extra[0] != b:
                    grid[extra[0][0]][extra[0][1]] = extra[1]
                grid[e[0]][e[1]] = O('Exit', 0, 'RED')
                for a in cells:
                    for ori in (steps.ORIS if ctx.quick is False or (a[0] + a[1]) % 2 == 0 else steps.ORIS[:2]):
                        jobs.append(dict(rec_id=rid, st_json={'grid': grid, 'pos': list(a), 'ori': ori, 'item': steps.HELD[0]}, space=steps.family_space(h, w)))
                        rid += 1
    sc.run_step_part(ctx, 'all_reward_components', jobs,
                     dict(comps=steps.COMPOSITIONS['keydoor'] + [C('move_obstacles')], via='gridworld', rew=R_ALL, term=T_ALL_TERMS, want=['C01', 'C12']), PREFIX + ['C12'])
    # random big states, random compositions
    jobs = []
    for i in range(300 if ctx.quick else 20000):
        h, w = rng.randint(1, 13), rng.randint(1, 13)
        st = obsh.random_state(rng, h, w, p_opaque=0.2)
        cells = [(y, x) for y in range(h) for x in range(w)]
        for (y, x) in rng.sample(cells, min(len(cells), rng.randint(0, 3))):
            st['grid'][y][x] = rng.choice([O('MovingObstacle'), O('Telepod', 0, 'RED'), O('Telepod', 0, 'BLUE')])
        comps = rng.sample(steps.T_ALL, rng.randint(1, 7))
        jobs.append(dict(rec_id=i, st_json=st, space=steps.family_space(h, w), comps=comps, seeds=[rng.randrange(2 ** 31) for _ in range(2)]))
    sc.run_step_part(ctx, 'random_big', jobs, dict(comps=steps.T_ALL, via='gridworld', rew=steps.R_SHIPPED, term=steps.TERM_SHIPPED,
                                                   actions=None, want=['C01']), PREFIX)
    # (ii) observations lie in the observation space
    jobs = []
    rid = 0
    for (vh, vw) in [(3, 3), (2, 5), (7, 7)]:
        area = [[-vh + 1, 0], [-(vw // 2), vw // 2]]
        ospace = {'shape': [vh, vw], 'types': steps.FAMILY_TYPES, 'colors': steps.ALL_COLORS[1:]}
        n = steps.cell_family_size(1, 2)
        idxs = range(0, n, 7 if ctx.quick else 1)
        states = [steps.cell_family_member(1, 2, i) for i in idxs] + [steps.cell_family_member(2, 1, i) for i in idxs]
        states += [obsh.random_state(rng, rng.randint(1, 9), rng.randint(1, 9)) for _ in range(200 if ctx.quick else 5000)]
        for st in states:
            fname = obsh.OBS_FUNCTIONS[rid % 4]
            jobs.append(dict(kind='obs', rec_id=rid, fname=fname, area_json=area, st_json=st, want=['C01', 'C05'], ospace=ospace, seed=rid))
            rid += 1
    oc.run_obs_part(ctx, 'obs_in_space', jobs, ['C01', 'C05.raise'])
    # (iii) invalid actions
    cfgs = [(n, config.load(os.path.join(boot.REPO, 'yaml', n))) for n in ('gv_keydoor.5x5.yaml', 'gv_dynamic_obstacles.5x5.yaml')]
    behs, res = envreplay.model_behaviours(ctx.work, ['Reset', 'Step', 'StepInvalid', 'ReadObs'], 4 if ctx.quick else 6, tag='invalid')
    behs = [b for b in behs if any(s['op'] == 'StepInvalid' for s in b)]
    ctx.add_tlc(res, 'GVEnv: sequences with invalid actions')
    n_ops = replay_all(ctx, cfgs, behs, 'inner', 'invalid actions')
    # the rejection of foreign actions does not depend on the library's debug flag
    n_ops += replay_all(ctx, cfgs, behs, 'inner', 'invalid actions (debug flag off)', debug=False)
    ctx.add_counts(evaluations=n_ops, traces=len(behs) * len(cfgs))
    ctx.add_part('invalid actions', behaviours=len(behs), operations=n_ops)
    # (iv) membership predicates
    recs = membership_records(rng, 40 if ctx.quick else 600)
    d = os.path.join(ctx.work, 'space')
    os.makedirs(d, exist_ok=True)
    paths = []
    for s in range(8):
        p = os.path.join(d, f'space_{s}.ndjson')
        with open(p, 'w') as f:
            for r in recs[s::8]:
                f.write(json.dumps(r, separators=(',', ':')) + '\n')
        paths.append(p)
    results = run_many([dict(module='Trace_Space', env={'TRACE_FILE': p}, workers=1, timeout=3000) for p in paths], parallel=8)
    for res in results:
        ctx.add_tlc(res, 'Trace_Space')
        for t in res.find('BAD'):
            r = recs[t[1]]
            ctx.violation(f"{r['kind']} space contains() = {r['contains']} on a candidate with a single fault [{r['label']}] of space {json.dumps(r['space'])}: "
                          f"{sc.sst(r['cand']) if r['kind'] != 'action' else r['cand']}", {'kind': 'space', 'record': r})
    ctx.add_counts(evaluations=len(recs), traces=len(recs))
    ctx.add_part('membership predicates', candidates=len(recs))
    basics_part(ctx, rng)
    # (v) random walks of the shipped configurations with the debug checks on
    reset_gv_debug(True)
    from checks.c17 import traj_records
    srecs, orecs = [], []
    rid = 0
    for path in config.shipped_files():
        data = config.load(path)
        cfg = config.spec_config(data)
        env = config.build_env(data)
        for ep in range(1 if ctx.quick else 5):
            try:
                _, sr, orr, _ = traj_records(env, data, cfg, ctx.seed * 31 + ep, 40 if ctx.quick else 300, rid)
            except Exception as e:
                ctx.violation(f'{os.path.basename(path)}: random walk raised {type(e).__name__}: {e}', {'kind': 'walk', 'file': os.path.basename(path), 'episode': ep})
                continue
            rid += 400
            for r in sr:
                r['want'] = ['C01']
            for r in orr:
                r['want'] = ['C01', 'C05']
            srecs += sr
            orecs += orr
    d = os.path.join(ctx.work, 'walk')
    os.makedirs(d, exist_ok=True)
    jobs = []
    fans = {r['fankey']: obsh._fan_cache[r['fankey']] for r in orecs if r['fankey']}
    for s in range(8):
        p = os.path.join(d, f'step_{s}.ndjson')
        with open(p, 'w') as f:
            for r in srecs[s::8]:
                f.write(json.dumps(r, separators=(',', ':')) + '\n')
        jobs.append(dict(module='Trace_Step', env={'TRACE_FILE': p}, workers=1, timeout=3000))
        p = os.path.join(d, f'obs_{s}.ndjson')
        with open(p, 'w') as f:
            f.write(json.dumps({'id': -1, 'kind': 'fans', 'want': [], 'fans': fans}) + '\n')
            for r in orecs[s::8]:
                f.write(json.dumps(r, separators=(',', ':')) + '\n')
        jobs.append(dict(module='Trace_Obs', env={'TRACE_FILE': p}, workers=1, timeout=3000))
    for res in run_many(jobs, parallel=16):
        ctx.add_tlc(res, f'{res.module} on random walks of shipped configurations')
        for t in res.find('BAD'):
            clauses = sorted((t[3] if res.module == 'Trace_Step' else t[2])['set'])
            if any(c.startswith('C01') for c in clauses):
                ctx.violation(f'random walk of a shipped configuration: record {t[1]} fails {clauses}', {'kind': 'walk', 'clauses': clauses, 'id': t[1]})
    ctx.add_counts(evaluations=len(srecs) + len(orecs), traces=len(srecs) + len(orecs))
    ctx.add_part('random walks of shipped configurations', steps=len(srecs))
    ctx.cov['exhaustive'] = True


if __name__ == '__main__':
    main(run, 'C01')
