"""C08 - agent kinematics."""
import os

from harness import boot  # noqa
from harness import steps
from harness.checklib import main
from checks import stepcommon as sc

PREFIX = ['C08']


def run(ctx, replay=None):
    if replay:
        return sc.replay_step(ctx, replay)
    ctx.cov['rule'] = ('step records: (state, composition, action) -> all outcomes of the real code (EnumeratingRNG), validated by TLC '
                       'against KinematicsRule/AgentOK of GVTransitions; non-trivial = distinct (state, action, next) with next # state')
    ctx.assumptions += ['numpy Generator.choice(n) has full support over 0..n-1 (EnumeratingRNG enumerates it)',
                        'documented preconditions: none for move/turn']
    # M: the specification satisfies the rules on the small scopes
    sc.mc_step(ctx, 'line', 'ShapesLine', None, 'FullAlpha', 'FullHeld',
               ['all', 'nested'] if ctx.quick else ['basic', 'keydoor', 'obstacles', 'teleport', 'all', 'all2', 'nested'],
               sc.MC_STEP_INVARIANTS['C08'])
    sc.mc_step(ctx, 'local33', 'Shapes33', 1 if ctx.quick else 2, 'FullAlpha', 'SmallHeld', ['all'], sc.MC_STEP_INVARIANTS['C08'])
    if not ctx.quick:
        sc.mc_step(ctx, 'full22', 'Shapes22', None, 'SmallAlpha', 'SmallHeld', ['all', 'all2'], sc.MC_STEP_INVARIANTS['C08'])
    # T: the code on the same families
    comps_cell = ['only_move', 'only_turn', 'all'] if ctx.quick else ['only_move', 'only_turn', 'basic', 'keydoor', 'obstacles', 'teleport', 'all', 'all2', 'nested', 'unshaped']
    for cname in comps_cell:
        for (h, w) in [(1, 2), (2, 1), (1, 1)]:
            sc.run_step_part(ctx, f'cell{h}x{w}_{cname}', sc.cell_jobs(h, w),
                             dict(comps=steps.COMPOSITIONS[cname], space=steps.family_space(h, w), via='direct'),
                             PREFIX, exhaustive_family=f'S-cell {h}x{w}: {steps.cell_family_size(h, w)} states x 8 actions')
    for cname in (['all2'] if ctx.quick else ['all', 'all2', 'teleport']):
        for (h, w, k) in ([(3, 3, 1)] if ctx.quick else [(3, 3, 1), (2, 3, 2), (3, 2, 2), (3, 3, 2)]):
            helds = steps.HELD if k == 1 else steps.HELD[:2]
            sc.run_step_part(ctx, f'local{h}x{w}k{k}_{cname}', sc.local_jobs(h, w, k, helds=helds),
                             dict(comps=steps.COMPOSITIONS[cname], space=steps.family_space(h, w), via='gridworld'),
                             PREFIX)
    sc.random_big_part(ctx, PREFIX, 300 if ctx.quick else 6000, seed_offset=1)
    sc.live_chain_part(ctx, PREFIX, 150 if ctx.quick else 1500, seed_offset=1)
    sc.mc_reach(ctx, ['InvAgentOK', 'InvClosure'])
    sc.apalache_lemmas(ctx, ['IndInv', 'KinematicsLemma'], modules=('MC_GVSym_5x5',) if ctx.quick else ('MC_GVSym_5x5', 'MC_GVSym_7x9'))
    sc.history_part(ctx, PREFIX, ['gv_keydoor.5x5.yaml', 'gv_dynamic_obstacles.7x7.yaml', 'gv_teleport.7x7.yaml', 'gv_four_rooms.7x7.yaml', 'gv_crossing.7x7.yaml'] if ctx.quick else [os.path.basename(x) for x in __import__('harness.config', fromlist=['x']).shipped_files()],
                    400 if ctx.quick else 2000, range(2) if ctx.quick else range(4))
    ctx.cov['exhaustive'] = True


if __name__ == '__main__':
    main(run, 'C08')
