"""C09 - conservation of objects."""
import itertools
import os

from harness import boot  # noqa
from harness import steps
from harness.checklib import main
from checks import stepcommon as sc

PREFIX = ['C09']


def run(ctx, replay=None):
    if replay:
        return sc.replay_step(ctx, replay)
    ctx.cov['rule'] = ('step records validated by TLC against ConservationRule (bag of objects incl. held item, scenery immobility, '
                       'pick/drop/swap on the front cell only); non-trivial = distinct (state, action, next) with next # state')
    ctx.assumptions += ['EnumeratingRNG covers every outcome of every random choice',
                        'object identity in the bag = (type, colour, box content); door status is governed by C10']
    sc.mc_step(ctx, 'line', 'ShapesLine', None, 'FullAlpha', 'FullHeld',
               ['all', 'keydoor'] if ctx.quick else ['basic', 'keydoor', 'obstacles', 'teleport', 'all', 'all2', 'nested'],
               sc.MC_STEP_INVARIANTS['C09'])
    sc.mc_step(ctx, 'local33', 'Shapes33', 1 if ctx.quick else 2, 'FullAlpha', 'FullHeld' if ctx.quick else 'SmallHeld', ['all2'], sc.MC_STEP_INVARIANTS['C09'])
    if not ctx.quick:
        sc.mc_step(ctx, 'full22', 'Shapes22', None, 'SmallAlpha', 'SmallHeld', ['all', 'all2'], sc.MC_STEP_INVARIANTS['C09'])
    comps_cell = ['only_pickndrop', 'all'] if ctx.quick else ['only_pickndrop', 'only_box', 'only_obstacles', 'keydoor', 'all', 'all2', 'nested']
    for cname in comps_cell:
        for (h, w) in [(1, 2), (2, 1), (1, 1)]:
            sc.run_step_part(ctx, f'cell{h}x{w}_{cname}', sc.cell_jobs(h, w),
                             dict(comps=steps.COMPOSITIONS[cname], space=steps.family_space(h, w), via='direct'),
                             PREFIX, exhaustive_family=f'S-cell {h}x{w}: {steps.cell_family_size(h, w)} states x 8 actions')
    for cname in (['all'] if ctx.quick else ['all', 'all2', 'keydoor']):
        for (h, w, k) in ([(3, 3, 1)] if ctx.quick else [(3, 3, 1), (2, 3, 2), (3, 2, 2), (3, 3, 2)]):
            helds = steps.HELD if k == 1 else steps.HELD[:2]
            sc.run_step_part(ctx, f'local{h}x{w}k{k}_{cname}', sc.local_jobs(h, w, k, helds=helds),
                             dict(comps=steps.COMPOSITIONS[cname], space=steps.family_space(h, w), via='direct'),
                             PREFIX)
    # boxes of every nesting depth used by the families of C10 (opening replaces the box by its content, exactly one level)
    from checks.c10 import door_family
    bfam = door_family(box=True, colors=['RED', 'BLUE'])
    for cname in (['only_box', 'all'] if ctx.quick else ['only_box', 'all', 'all2', 'nested']):
        jobs = [dict(rec_id=i, st_json=s, space=steps.family_space(len(s['grid']), len(s['grid'][0]))) for i, s in enumerate(bfam)]
        sc.run_step_part(ctx, f'boxes_{cname}', jobs, dict(comps=steps.COMPOSITIONS[cname], via='direct'), PREFIX)
    # a second holdable type: "holdable" is an attribute of the class, not "is a Key" (harness/custom.py, GVObjects.Holdable)
    from harness import custom  # noqa: F401
    O = steps.O
    cells = [steps.FLOOR, O('Gem'), O('Key', 0, 'RED'), O('Wall'), O('Exit'), O('Door', 1, 'RED'), O('Box', 0, 'NONE', O('Gem'))]
    helds = [O('NoneGridObject'), O('Gem'), O('Key', 0, 'RED'), O('Key', 0, 'BLUE')]
    gfam = []
    for (h, w) in [(1, 2), (2, 1)]:
        for content in itertools.product(cells, repeat=h * w):
            grid = [list(content[y * w:(y + 1) * w]) for y in range(h)]
            for pos in range(h * w):
                for ori in steps.ORIS:
                    for held in helds:
                        gfam.append({'grid': grid, 'pos': [pos // w, pos % w], 'ori': ori, 'item': held})
    space = dict(steps.family_space(0, 0))
    space['types'] = list(space['types']) + ['Gem']
    for cname in (['only_pickndrop', 'all'] if ctx.quick else ['only_pickndrop', 'all', 'nested']):
        jobs = [dict(rec_id=i, st_json=s_, space=dict(space, shape=[len(s_['grid']), len(s_['grid'][0])])) for i, s_ in enumerate(gfam)]
        sc.run_step_part(ctx, f'holdables_{cname}', jobs, dict(comps=steps.COMPOSITIONS[cname], via='direct'), PREFIX)
    ctx.add_part('holdable family (custom holdable object Gem next to Key)', size=len(gfam))
    sc.random_big_part(ctx, PREFIX, 300 if ctx.quick else 6000, seed_offset=2)
    sc.live_chain_part(ctx, PREFIX, 150 if ctx.quick else 1500, seed_offset=2)
    sc.mc_reach(ctx, ['InvInventory', 'InvDoorsStayDoors'])
    sc.apalache_lemmas(ctx, ['LocalityLemma', 'ExchangeLemma', 'HeldLemma'], modules=('MC_GVSym_5x5',) if ctx.quick else ('MC_GVSym_5x5', 'MC_GVSym_7x9'))
    sc.history_part(ctx, PREFIX, ['gv_keydoor.5x5.yaml', 'gv_keydoor.7x7.yaml', 'gv_dynamic_obstacles.5x5.yaml', 'gv_dynamic_obstacles.7x7.yaml'] if ctx.quick else [os.path.basename(x) for x in __import__('harness.config', fromlist=['x']).shipped_files()],
                    400 if ctx.quick else 2000, range(2) if ctx.quick else range(4))
    ctx.cov['exhaustive'] = True


if __name__ == '__main__':
    main(run, 'C09')
