"""C12 - rewards and termination mean what they say, and agree with each other."""
import json
import os
import random

from harness import boot  # noqa
from harness import rewards, steps
from harness.checklib import main
from checks import stepcommon as sc

O = steps.O


def distance_state(rng, h, w):
    cells = [(y, x) for y in range(h) for x in range(w)]
    rng.shuffle(cells)
    grid = [[steps.FLOOR for _ in range(w)] for _ in range(h)]
    special = [O('Exit'), O('Key', 0, 'RED'), O('Beacon', 0, rng.choice(['RED', 'BLUE']))]
    if rng.random() < 0.3:
        special.append(O('Exit', 0, rng.choice(['RED', 'BLUE'])))  # second exit: precondition of Exit-distance unmet
    for (y, x), o in zip(cells, special):
        grid[y][x] = o
    single_door = rng.random() < 0.4      # exactly one door: the precondition of the Door-distance components holds
    if single_door and len(cells) > len(special):
        special.append(O('Door', rng.choice([0, 1, 2]), 'RED'))
        y, x = cells[len(special) - 1]
        grid[y][x] = special[-1]
    for (y, x) in cells[len(special):]:
        u = rng.random()
        if u < 0.25:
            grid[y][x] = O('Wall')
        elif u < 0.33 and not single_door:
            grid[y][x] = O('Door', rng.choice([0, 1, 2]), 'RED')
        elif u < 0.38:
            grid[y][x] = O('MovingObstacle')
    pos = rng.choice(cells)
    return {'grid': grid, 'pos': list(pos), 'ori': rng.choice(steps.ORIS), 'item': rng.choice(steps.HELD[:2])}


def maze_state(rng, h, w):
    """a walled serpentine corridor (shortest paths far longer than height + width), optionally transposed"""
    grid = [[O('Wall') for _ in range(w)] for _ in range(h)]
    transposed = rng.random() < 0.5
    H, W = (w, h) if transposed else (h, w)

    def put(y, x, o):
        if transposed:
            grid[x][y] = o
        else:
            grid[y][x] = o

    free = []
    for y in range(1, H - 1):
        if y % 2 == 1:
            for x in range(1, W - 1):
                put(y, x, steps.FLOOR)
                free.append((y, x))
        else:
            x = W - 2 if (y // 2) % 2 == 1 else 1
            put(y, x, steps.FLOOR)
            free.append((y, x))
    if rng.random() < 0.3:      # one shortcut somewhere
        y = rng.randrange(2, max(3, H - 2), 2) if H > 4 else 1
        put(min(y, H - 2), rng.randrange(1, W - 1), steps.FLOOR)
    cells = list(free)
    rng.shuffle(cells)
    special = [O('Exit'), O('Key', 0, 'RED'), O('Beacon', 0, rng.choice(['RED', 'BLUE']))]
    ends = [free[0], free[-1]]
    rng.shuffle(ends)
    spots = [ends[0]] + [c for c in cells if c not in ends][:2] if rng.random() < 0.7 else cells[:3]
    for (y, x), o in zip(spots, special):
        put(y, x, o)
    pos = rng.choice(free[len(free) // 2:] if spots[0] == free[0] else free[:len(free) // 2 + 1])
    if transposed:
        pos = (pos[1], pos[0])
    return {'grid': grid, 'pos': list(pos), 'ori': rng.choice(steps.ORIS), 'item': steps.HELD[0]}


def perturb(rng, s):
    """an arbitrary next state: agent elsewhere, possibly a door toggled / key picked"""
    s = json.loads(json.dumps(s))
    h, w = len(s['grid']), len(s['grid'][0])
    s['pos'] = [rng.randrange(h), rng.randrange(w)]
    if rng.random() < 0.5:
        s['ori'] = rng.choice(steps.ORIS)
    if rng.random() < 0.4:
        y, x = rng.randrange(h), rng.randrange(w)
        o = s['grid'][y][x]
        if o['t'] == 'Door':
            o['s'] = rng.choice([0, 1, 2])
        elif o['t'] == 'Key':
            s['grid'][y][x] = steps.FLOOR
            s['item'] = o
        elif o['t'] == 'Floor' and s['item']['t'] != 'NoneGridObject':
            s['grid'][y][x] = s['item']
            s['item'] = steps.HELD[0]
    return s


def run(ctx, replay=None):
    rng = random.Random(ctx.seed)
    lists = rewards.component_lists(rng)
    if replay:
        art = json.load(open(replay))['replay']
        lists = tuple(art['lists'])
        jobs = [dict(rec_id=0, st_json=art['st'], action=art['a'], nexts_json=art['nexts'])]
        paths, counts = rewards.run_jobs(os.path.join(ctx.work, 'replay'), jobs, lists, nshards=1)
        bad, tot = rewards.validate(paths)
        ctx.add_tlc(tot, 'Trace_Reward replay')
        ctx.log('replay reproduces the violation' if bad else 'replay: no violation on the current tree')
        for b in bad:
            ctx.violation(f'replay: {b["fails"]}', art)
        return
    ctx.cov['rule'] = ('every registered reward / termination component (default and random decimal parameters, composites) evaluated by the real '
                       'code on (state, action, next) triples - next from the real dynamics and arbitrary - and compared by TLC with GVRewards; '
                       'distinct_nontrivial = distinct vectors of returned values')
    ctx.assumptions += ['preconditions: distance components need exactly one object of the type in both states; reach_exit_memory needs a beacon',
                        'bump_into_wall is compared only when the agent does not stand on a movement-blocking cell or the action is a move',
                        'rewards are compared as integer milli-units (all parameters have at most 3 decimals)']
    sc.mc_step(ctx, 'line', 'ShapesLine', None, 'FullAlpha', 'SmallHeld', ['all'], sc.MC_STEP_INVARIANTS['C12'])
    jobs = []
    rid = 0
    # (a) 1x1 family: every state, every action, arbitrary next states
    n11 = steps.cell_family_size(1, 1)
    for i in range(n11):
        st = steps.cell_family_member(1, 1, i)
        for a in steps.ACTIONS:
            nexts = [steps.cell_family_member(1, 1, rng.randrange(n11)) for _ in range(2)]
            jobs.append(dict(rec_id=rid, st_json=st, action=a, nexts_json=nexts, dyn_comps=steps.COMPOSITIONS['all']))
            rid += 1
    # (b) 1x2 / 2x1 family: sample (quick) or all (thorough), real successors + arbitrary
    for (h, w) in [(1, 2), (2, 1)]:
        n = steps.cell_family_size(h, w)
        idxs = rng.sample(range(n), 500) if ctx.quick else range(n)
        for i in idxs:
            st = steps.cell_family_member(h, w, i)
            for a in (rng.sample(steps.ACTIONS, 3) if ctx.quick else steps.ACTIONS):
                nexts = [steps.cell_family_member(h, w, rng.randrange(n))]
                jobs.append(dict(rec_id=rid, st_json=st, action=a, nexts_json=nexts, dyn_comps=steps.COMPOSITIONS['all'], dyn_seeds=(0, 1)))
                rid += 1
    # (c) distance family: one exit / key / beacon among walls and doors
    for _ in range(400 if ctx.quick else 6000):
        h, w = rng.choice([(2, 3), (3, 3), (3, 4), (4, 4), (5, 5), (4, 2), (6, 9), (9, 6), (3, 11)])
        st = distance_state(rng, h, w)
        for a in (rng.sample(steps.ACTIONS, 2) if ctx.quick else steps.ACTIONS):
            nexts = [perturb(rng, st) for _ in range(2)]
            jobs.append(dict(rec_id=rid, st_json=st, action=a, nexts_json=nexts, dyn_comps=steps.COMPOSITIONS['all'], dyn_seeds=(0,)))
            rid += 1
    # (d) mazes: shortest paths much longer than height + width, agent far from the target
    for _ in range(60 if ctx.quick else 600):
        h, w = rng.choice([(7, 7), (9, 9), (7, 10), (11, 8)])
        st = maze_state(rng, h, w)
        for a in rng.sample(steps.ACTIONS[:4], 2) + (['MOVE_FORWARD'] if ctx.quick else steps.ACTIONS[:4]):
            jobs.append(dict(rec_id=rid, st_json=st, action=a, nexts_json=[perturb(rng, st)], dyn_comps=steps.COMPOSITIONS['all'], dyn_seeds=(0,)))
            rid += 1
    paths, counts = rewards.run_jobs(os.path.join(ctx.work, 'rew'), jobs, lists)
    bad, tot = rewards.validate(paths)
    if tot['done'] != counts['records']:
        raise RuntimeError('TLC validated %d of %d records' % (tot['done'], counts['records']))
    ctx.add_tlc(tot, 'Trace_Reward')
    ctx.add_counts(evaluations=counts['evaluations'], nontrivial=counts['distinct_value_vectors'], traces=counts['records'])
    ctx.add_part('reward/termination triples', records=counts['records'], component_evaluations=counts['evaluations'],
                 reward_components=len(lists[0]), termination_components=len(lists[1]))
    for b in bad:
        rec = None
        with open(b['shard']) as f:
            for line in f:
                r = json.loads(line)
                if r['id'] == b['id']:
                    rec = r
                    break
        fails = b['fails']
        clause, n, comp = fails[0]
        nxt = rec['nexts'][n - 1]
        what = f"{clause} component {comp}: [{sc.sst(rec['st'])}] {rec['a']} -> [{sc.sst(nxt)}]"
        ctx.violation(what, {'kind': 'reward', 'st': rec['st'], 'a': rec['a'], 'nexts': [nxt], 'lists': list(lists), 'fails': fails})
    rec = json.loads(open(paths[0]).readline())
    ctx.sample({'state': sc.sst(rec['st']), 'action': rec['a'], 'next': sc.sst(rec['nexts'][0]),
                'values': {c['name']: x['v'] for c, x in list(zip(rec['rcomps'], rec['rres'][0]))[:8]}})
    for p in paths:
        os.remove(p)
    # the shipped reward/termination lists inside GridWorld.functional_step on the step families
    for (h, w) in [(1, 2), (2, 1)]:
        stride = 7 if ctx.quick else 1
        sc.run_step_part(ctx, f'gridworld_cell{h}x{w}', sc.cell_jobs(h, w, stride=stride),
                         dict(comps=steps.COMPOSITIONS['all'], space=steps.family_space(h, w), via='gridworld',
                              rew=steps.R_SHIPPED, term=steps.TERM_SHIPPED, want=['C12']), ['C12'])

    trajectories_part(ctx)
    returns_part(ctx)
    recording_part(ctx)


def recording_part(ctx):
    """recording.py / utils/space_builders.py against the GVRecording machine (beyond the listed property: drift only)"""
    from harness import recordreplay

    n = mism = nb = 0
    for stateless, depth in ((True, 1), (False, 4 if ctx.quick else 5)):
        behs = recordreplay.behaviours(ctx, depth, stateless)
        a, b = recordreplay.replay(ctx, behs)
        n, mism, nb = n + a, mism + b, nb + len(behs)
    ctx.add_counts(evaluations=n, traces=nb)
    # the invariant the bounded runs check up to Depth 5, proved for every Depth by TLAPS
    import re
    import shutil
    import subprocess
    import tempfile
    from harness.tlc import SPEC
    tmp = tempfile.mkdtemp(prefix='tlaps_')
    try:
        for f in ('GVRecording.tla', 'GVRecordingProofs.tla'):
            shutil.copy(os.path.join(SPEC, f), tmp)
        out = subprocess.run(['tlapm', '-I', '/opt/veriftools/tla', 'GVRecordingProofs.tla'], cwd=tmp, capture_output=True, text=True, timeout=900)
        m = re.search(r'All (\d+) obligations? proved', out.stdout + out.stderr)
    finally:
        shutil.rmtree(tmp, ignore_errors=True)
    if not m:
        ctx.drift('TLAPS could not discharge GVRecordingProofs (BuilderShape for every depth)')
    ctx.add_part('recording / space-builder machine (GVRecording) replayed on the real classes', behaviours=nb, operations=n, mismatches=mism,
                 tlaps_obligations_proved=int(m.group(1)) if m else 0)


def returns_part(ctx):
    """utils/rl.make_return_computer against Trace_Returns (beyond the listed property: drift only)"""
    from harness.tlc import run_tlc
    from gym_gridverse.utils.rl import make_return_computer

    rng = random.Random(ctx.seed + 99)
    recs = []
    for k in range(200 if ctx.quick else 3000):
        dexp = rng.choice([0, 1, 2])
        n = rng.randint(1, 8)
        rnum = [rng.randint(-40, 40) for _ in range(n)]
        f = make_return_computer(1.0 / 2 ** dexp)
        scaled, exact = [], []
        for j, rn in enumerate(rnum):
            g = f(rn / 8.0) * 8 * 2 ** (dexp * j)
            scaled.append(int(round(g)))
            exact.append(abs(g - round(g)) < 1e-9)
        recs.append({'id': k, 'dexp': dexp, 'rnum': rnum, 'scaled': scaled, 'exact': exact})
    path = os.path.join(ctx.work, 'returns.ndjson')
    with open(path, 'w') as fh:
        for r in recs:
            fh.write(json.dumps(r) + '\n')
    res = run_tlc('Trace_Returns', env={'TRACE_FILE': path}, workers=1, timeout=600)
    ctx.add_tlc(res, 'Trace_Returns (make_return_computer)')
    for t in res.find('BAD'):
        ctx.drift(f'make_return_computer differs from the discounted sum: {recs[t[1]]}')
    ctx.add_counts(evaluations=len(recs), traces=len(recs))
    ctx.add_part('discounted returns (utils/rl.py)', records=len(recs), mismatches=len(res.find('BAD')))
    os.remove(path)


def _hist_worker(args):
    from harness import config, history
    path, seed, nsteps = args
    data = config.load(path)
    recs = history.make_history(path, seed, nsteps, name=os.path.basename(path))
    return os.path.basename(path), history.to_step_records(recs, data, ['C12', 'C01']), sum(1 for r in recs[1:] if r['d'])


def trajectories_part(ctx):
    """partly goal-directed trajectories of every shipped configuration: the reward and flag of every step equal the
    configured sum / composite of the specification (so the exit reward is paid exactly on the steps exit-termination fires)"""
    import multiprocessing as mp
    from harness import config
    from harness.tlc import run_many

    files = config.shipped_files()
    nsteps = 150 if ctx.quick else 1500
    with mp.Pool(16) as pool:
        res = pool.map(_hist_worker, [(f, ctx.seed * 13 + k, nsteps) for k, f in enumerate(files)])
    recs = []
    by_file = {}
    terminals = 0
    for k, (name, rr, nterm) in enumerate(res):
        for r in rr:
            r['id'] = len(recs)
            by_file[r['id']] = name
            recs.append(r)
        terminals += nterm
    d = os.path.join(ctx.work, 'traj')
    os.makedirs(d, exist_ok=True)
    paths = []
    for s_ in range(8):
        p = os.path.join(d, f'traj_{s_}.ndjson')
        with open(p, 'w') as f:
            for r in recs[s_::8]:
                f.write(json.dumps(r, separators=(',', ':')) + '\n')
        paths.append(p)
    for res_ in run_many([dict(module='Trace_Step', env={'TRACE_FILE': p}, workers=1, timeout=3000) for p in paths], parallel=8):
        ctx.add_tlc(res_, 'Trace_Step on trajectories of the shipped configurations (C12 clauses)')
        for t in res_.find('BAD'):
            clauses = sorted(t[3]['set'])
            if any(c.startswith('C12') for c in clauses):
                r = recs[t[1]]
                a = r['acts'][0]
                ctx.violation(f"{by_file[t[1]]}: step reward / flag differs from the configured composite: {clauses} on [{sc.sst(r['st'])}] {a['a']} -> r={a['r'][0] / 1000} done={a['done'][0]}",
                              {'kind': 'traj', 'file': by_file[t[1]], 'record': r, 'clauses': clauses})
    ctx.add_counts(evaluations=len(recs), traces=len(files))
    ctx.add_part('trajectories of shipped configurations', files=len(files), steps=len(recs), terminal_steps=terminals)
    for p in paths:
        os.remove(p)


if __name__ == '__main__':
    main(run, 'C12')

