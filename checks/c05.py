"""C05 - observations are sound."""
import random

from harness import boot  # noqa
from harness import obs, steps
from harness.checklib import main
from checks import obscommon as oc

PREFIX = ['C05']
WANT = ['C05', 'DRIFT']


def all_areas(b):
    rng = range(-b, b + 1)
    return [[[y1, y2], [x1, x2]] for y1 in rng for y2 in rng if y1 <= y2 for x1 in rng for x2 in rng if x1 <= x2]


def run(ctx, replay=None):
    if replay:
        return oc.replay_obs(ctx, replay, PREFIX)
    ctx.cov['rule'] = ('observation records (state, area, function, seed) -> observation of the real code, validated cell by cell by TLC '
                       '(ObsSound: shape, anchor, held item, every cell Hidden or the world cell at the transformed position; all shown for '
                       'fully_transparent); distinct_nontrivial = distinct observations having both hidden and shown cells')
    ctx.assumptions += ['partially_occluded is defined for areas with ymax = 0 and xmin <= 0 <= xmax; ray tracing for areas containing the agent '
                        '(the code raises otherwise; recorded as precondition)']
    oc.mc_obs(ctx, 3 if ctx.quick else 4, 2 if ctx.quick else 3,
              ['InvPipelineIsPointwise', 'InvShape', 'InvAnchor', 'InvMaskedSound', 'InvFullShown'])
    rng = random.Random(ctx.seed)
    jobs = []
    rid = 0
    # exhaustive: labelled grids, all poses, all areas with bounds in -2..2, fully transparent
    shapes = [(1, 1), (2, 3), (3, 2), (3, 3)] if ctx.quick else [(h, w) for h in range(1, 5) for w in range(1, 5)]
    areas = all_areas(2)
    for (h, w) in shapes:
        grid = obs.labelled_grid(h, w)
        for y in range(h):
            for x in range(w):
                for ori in steps.ORIS:
                    st = {'grid': grid, 'pos': [y, x], 'ori': ori, 'item': steps.HELD[(y + x) % 4]}
                    for a in areas:
                        jobs.append(dict(kind='obs', rec_id=rid, fname='fully_transparent', area_json=a, st_json=st, want=WANT))
                        rid += 1
                        for fname in ('partially_occluded', 'raytracing'):
                            if obs.area_valid_for(fname, a) and (not ctx.quick or (a[0][0] + a[1][1]) % 2 == 0):
                                jobs.append(dict(kind='obs', rec_id=rid, fname=fname, area_json=a, st_json=st, want=WANT))
                                rid += 1
    oc.run_obs_part(ctx, 'labelled', jobs, PREFIX)
    # random big grids, all functions, shipped 7x7 view and asymmetric areas, agent on edges
    jobs = []
    n = 2000 if ctx.quick else 50000
    for k in range(n):
        h, w = rng.randint(1, 13), rng.randint(1, 13)
        st = obs.random_state(rng, h, w)
        fname = rng.choice(obs.OBS_FUNCTIONS)
        if rng.random() < 0.4:
            a = [[-6, 0], [-3, 3]]
        else:
            a = obs.random_area(rng, fname, maxext=3 if ctx.quick else 4)
        jobs.append(dict(kind='obs', rec_id=len(jobs), fname=fname, area_json=a, st_json=st, want=WANT + ['C06'], seed=rng.randrange(2 ** 31)))
        boxes = [(y, x) for y, row in enumerate(st['grid']) for x, o in enumerate(row) if o['t'] == 'Box']
        if boxes:
            # a state that python equality cannot tell from the previous one (box contents are not compared), observed right after it
            import json as _json
            st2 = _json.loads(_json.dumps(st))
            for (y, x) in boxes:
                st2['grid'][y][x] = steps.O('Box', 0, 'NONE', rng.choice([steps.O('Floor'), steps.O('Key', 0, 'BLUE'), steps.O('Wall')]))
            jobs.append(dict(kind='obs', rec_id=len(jobs), fname=fname, area_json=a, st_json=st2, want=WANT + ['C06'], seed=rng.randrange(2 ** 31)))
    oc.run_obs_part(ctx, 'random', jobs, PREFIX)
    # areas outside the functions' domain must not produce an observation silently different: they raise
    ctx.cov['exhaustive'] = True


if __name__ == '__main__':
    main(run, 'C05')
