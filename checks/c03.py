"""C03 - the functional interface is pure, alias-free and history-independent."""
import copy
import json
import os
import random

from harness import boot  # noqa
from harness import build, cachereplay, config, proj, steps
from harness.checklib import main
from harness.tlc import run_tlc, write_cfg

import numpy as np
from gym_gridverse.action import Action
from gym_gridverse.agent import Agent
from gym_gridverse.envs import reward_functions as reward_fs
from gym_gridverse.envs.gridworld import GridWorld
from gym_gridverse.envs.transition_functions import transition_with_copy
from gym_gridverse.geometry import Area, Position
from gym_gridverse.grid_object import Box, Door, Floor, Key, Color, Wall
from gym_gridverse.utils import raytracing as rt
from gym_gridverse.utils.fast_copy import fast_copy

O = steps.O


STATEFUL_TYPES = {'Door', 'Box', 'Exit', 'Key', 'Telepod', 'Beacon'}


def identities(state):
    """identities of every mutable component reachable from a state"""
    out = {id(state.grid), id(state.grid.objects), id(state.agent), id(state.agent.transform)}
    for row in state.grid.objects:
        out.add(id(row))
        for o in row:
            # objects that carry per-instance state (status, colour, content); stateless kinds (Floor, Wall, ...)
            # may legitimately be shared, e.g. as flyweights, without any aliasing hazard
            if type(o).__name__ in STATEFUL_TYPES:
                out.add(id(o))
            c = getattr(o, 'content', None)
            while c is not None:
                out.add(id(c))
                c = getattr(c, 'content', None)
    it = state.agent.grid_object
    if type(it).__name__ in STATEFUL_TYPES:
        out.add(id(it))
    return out


def mutate(rng, state, keep_cells=False):
    """a real in-place mutation by the caller"""
    h, w = state.grid.shape.height, state.grid.shape.width
    kind = rng.choice(['door', 'agent', 'item', 'orientation'] if keep_cells else ['door', 'cell', 'agent', 'box', 'item', 'orientation'])
    if kind == 'door':
        for pos in state.grid.area.positions():
            o = state.grid[pos]
            if isinstance(o, Door):
                o.state = Door.Status((o.state.value + 1) % 3)
                return
        kind = 'agent' if keep_cells else 'cell'
    if kind == 'box':
        for pos in state.grid.area.positions():
            o = state.grid[pos]
            if isinstance(o, Box):
                o.content = Key(Color.GREEN) if not isinstance(o.content, Key) or o.content.color != Color.GREEN else Wall()
                return
        kind = 'cell'
    if kind == 'cell':
        pos = Position(rng.randrange(h), rng.randrange(w))
        state.grid[pos] = Wall() if not isinstance(state.grid[pos], Wall) else Floor()
    elif kind == 'agent':
        p = state.agent.position
        state.agent.position = Position((p.y + 1) % h, (p.x + 1) % w) if (h > 1 or w > 1) else p
        if h == 1 and w == 1:
            state.agent.orientation = state.agent.orientation * state.agent.orientation.R
    elif kind == 'item':
        state.agent.grid_object = Key(Color.BLUE) if type(state.agent.grid_object).__name__ != 'Key' else Wall()
    else:
        state.agent.orientation = state.agent.orientation * type(state.agent.orientation).R


def snapshot(state):
    j = proj.state_to_json(state)
    # box content matters for purity even though python equality ignores it
    return json.dumps(j, sort_keys=True)


def door_route_states():
    """corridors in which a door lies on the only route to the single exit (the shortest-path reward depends on its status)"""
    out = []
    for status in (1, 2):
        for held in (steps.HELD[0], O('Key', 0, 'RED')):
            row = [steps.FLOOR, O('Door', status, 'RED'), steps.FLOOR, O('Exit')]
            out.append({'grid': [row], 'pos': [0, 0], 'ori': 'R', 'item': held, 'route': True})
            out.append({'grid': [[O('Wall'), O('Wall'), O('Wall'), O('Wall')], row], 'pos': [1, 0], 'ori': 'R', 'item': held, 'route': True})
    return out


def start_states(rng, n):
    out = []
    for _ in range(n):
        h, w = rng.choice([(1, 2), (2, 2), (2, 3), (3, 3), (4, 4)])
        cells = steps.ALPHA + [O('Box', 0, 'NONE', O('Box', 0, 'NONE', O('Key', 0, 'RED'))), O('Door', 1, 'BLUE')]
        grid = [[rng.choice(cells) if rng.random() < 0.55 else steps.FLOOR for _ in range(w)] for _ in range(h)]
        out.append({'grid': grid, 'pos': [rng.randrange(h), rng.randrange(w)], 'ori': rng.choice(steps.ORIS), 'item': rng.choice(steps.HELD)})
    return out


GMEMO = {}     # process-wide: digest of a question -> (digest of the answer, the question) - the same question in other histories


def _dg(x):
    import hashlib
    return hashlib.sha1(x.encode()).digest()[:12]


class World:
    def __init__(self, rng, st_json, comps_name, via):
        self.rng = rng
        comps = steps.COMPOSITIONS[comps_name]
        self.tf = build.transition_list(comps)
        self.route = bool(st_json.get('route'))
        st_json = {k: v for k, v in st_json.items() if k != 'route'}
        # on the door-route states the reward includes the shortest-path shaping (exactly one exit)
        self.rf = build.reward(steps.C('reduce_sum', reward_functions=[steps.R_SHIPPED, steps.C('getting_closer_shortest_path', object_type='Exit')])
                               if self.route else steps.R_SHIPPED)
        self.xf = build.termination(steps.TERM_SHIPPED)
        h, w = len(st_json['grid']), len(st_json['grid'][0])
        self.of_name = rng.choice(['fully_transparent', 'raytracing', 'partially_occluded'])
        self.of = build.observation(steps.C(self.of_name, area=[[-2, 0], [-1, 1]]))
        self.qctx = json.dumps([comps_name, self.of_name, self.route])
        self.via = via
        self.env = GridWorld(build.state_space(steps.family_space(h, w)), build.action_space(steps.ACTIONS), None,
                             lambda rng=None: None, self.tf, self.of, self.rf, self.xf)
        self.env.set_seed(rng.randrange(1000))
        self.handles = [proj.state_from_json(st_json)]
        self.memo = {}
        self.answers = []   # observations handed out and retained by the caller: (object, projection when given)

    def ask(self, kind, st, action, src=None):
        """deterministic questions (the composition used here has no random component when asked)"""
        if kind == 'Obs':
            obs = self.of(st, rng=np.random.default_rng(0))
            snap = snapshot(obs)
            if len(self.answers) < 12:
                self.answers.append([obs, snap, hash(obs.agent), src])
            return snap
        nxt = transition_with_copy(self.tf, st, action, rng=np.random.default_rng(5))
        if kind == 'Reward':
            try:
                return repr(float(self.rf(st, action, nxt)))
            except ValueError as e:   # a documented precondition is unmet (e.g. the caller mutated the only exit away)
                return 'raise:' + type(e).__name__
        if kind == 'Terminate':
            return repr(bool(self.xf(st, action, nxt)))
        return snapshot(nxt)

    def run(self, beh):
        """returns a problem string or None"""
        for step_i, (op, h, new) in enumerate(beh):
            before = [snapshot(s) for s in self.handles]
            st = self.handles[h - 1]
            action = self.rng.choice([Action.ACTUATE, Action.TURN_LEFT, Action.ACTUATE, Action.MOVE_FORWARD]) if self.route else self.rng.choice(list(Action))
            if op == 'Step':
                if self.via == 'gridworld':
                    nxt, r, d = self.env.functional_step(st, action)
                else:
                    nxt = transition_with_copy(self.tf, st, action, rng=np.random.default_rng(self.rng.randrange(99)))
                self.handles.append(nxt)
            elif op == 'Copy':
                c = fast_copy(st)
                if not (c == st) or hash(c.grid) != hash(st.grid) or hash(c.agent) != hash(st.agent) or snapshot(c) != snapshot(st):
                    return f'step {step_i}: a copied state does not equal / hash like its original'
                try:
                    if hash(c) != hash(st):
                        return f'step {step_i}: hash(copy) != hash(original)'
                except TypeError:
                    pass
                self.handles.append(c)
            elif op == 'Mutate':
                mutate(self.rng, st, keep_cells=self.route)
            elif op in ('Obs', 'Reward', 'Terminate'):
                key = (op, snapshot(st), action.name)
                ans = self.ask(op, st, action, src=h)
                if key in self.memo and self.memo[key] != ans:
                    return f'step {step_i}: the same {op} question got a different answer after intervening calls'
                self.memo[key] = ans
                gk = _dg(self.qctx + repr(key))
                if gk in GMEMO and GMEMO[gk][0] != _dg(ans):
                    return f'step {step_i}: the same {op} question got a different answer in another history of this process'
                GMEMO.setdefault(gk, (_dg(ans), [op, key[1], key[2]]))
            elif op == 'ReAsk':
                # ask again every question asked so far whose state still exists unchanged
                for (kind, snap, aname), ans in list(self.memo.items()):
                    again = self.ask(kind, proj.state_from_json(json.loads(snap)), Action[aname])
                    if again != ans:
                        return f'step {step_i}: {kind} is history-dependent: a repeated question got a different answer'
                key = ('Next', snapshot(st), action.name)
                ans = self.ask('Next', st, action)
                if key in self.memo and self.memo[key] != ans:
                    return f'step {step_i}: functional step is history-dependent'
                self.memo[key] = ans
            after = [snapshot(s) for s in self.handles]
            for k, (b, a) in enumerate(zip(before, after)):
                if b != a and not (op == 'Mutate' and k == h - 1):
                    return f'step {step_i}: {op} on handle {h} changed the value of handle {k + 1}'
            for k, entry in enumerate(self.answers):
                obs, snap, hsh, src = entry
                if op == 'Mutate' and src == h:
                    # observations share cell objects with the state they were computed from (GVHeap: Mutate may change
                    # the answers asked about the mutated handle): take the answer as it is now
                    entry[1], entry[2] = snapshot(obs), hash(obs.agent)
                    continue
                if snapshot(obs) != snap or hash(obs.agent) != hsh:
                    return (f'step {step_i}: after {op} on handle {h}, an observation handed out earlier (answer {k + 1}) has changed: '
                            f'a retained answer no longer equals the answer to the same question asked again')
            if op == 'Mutate' and before[h - 1] == after[h - 1]:
                return f'step {step_i}: harness mutation had no effect'
            idsets = [identities(s) for s in self.handles]
            for a in range(len(idsets)):
                for b in range(a + 1, len(idsets)):
                    shared = idsets[a] & idsets[b]
                    if shared:
                        return f'step {step_i}: after {op}, handles {a + 1} and {b + 1} share {len(shared)} mutable component(s)'
        return None


def _chunk(args):
    seed, behs, quick = args
    rng = random.Random(seed)
    problems = []
    n = 0
    starts = start_states(random.Random(quick * 7 + 11), 40) + door_route_states() * 2   # the same in every process: questions recur across processes
    for bi, beh in enumerate(behs):
        st = starts[bi % len(starts)]
        comps = 'keydoor' if st.get('route') else rng.choice(['all', 'keydoor', 'nested', 'only_box', 'basic'])
        via = 'gridworld' if bi % 2 else 'direct'
        w = World(rng, st, comps, via)
        p = w.run(beh)
        n += len(beh)
        if p:
            problems.append({'what': p, 'behaviour': beh, 'start': st, 'comps': comps, 'via': via})
            if len(problems) > 3:
                break
    return n, problems, {k: v[0] for k, v in GMEMO.items()}, {k: v[1] for k, v in list(GMEMO.items())[:0]}


def dijkstra_keys(rng, n):
    keys = []
    seen = set()
    while len(keys) < n:
        h, w = rng.randint(2, 6), rng.randint(2, 6)
        layout = tuple(tuple(rng.random() < 0.75 for _ in range(w)) for _ in range(h))
        src = (rng.randrange(h), rng.randrange(w))
        if (layout, src) not in seen:
            seen.add((layout, src))
            keys.append((layout, src))
    return keys


def run(ctx, replay=None):
    import multiprocessing as mp

    rng = random.Random(ctx.seed)
    ctx.cov['rule'] = ('ALL sequences of {functional step, copy, in-place mutation by the caller, observation / reward / termination questions, repeated questions} '
                       'over up to 3 state handles, generated by TLC from the GVHeap model (AliasFree, OnlyMutateChanges) and executed on real State objects: after every '
                       'operation all live handles are re-projected (values and identities of every mutable component, box contents included); '
                       'LRU histories from the GVCache model are replayed on the real dijkstra and ray caches; distinct_nontrivial = behaviours with a Mutate after a Step or Copy')
    ctx.assumptions += ['identity = python id() of grid, row lists, every GridObject (box contents included), Agent and Transform while all handles are alive']
    depth = 5 if ctx.quick else 6
    cfg = write_cfg(os.path.join(ctx.work, 'GVHeap.cfg'), specification='Spec', constants={'MaxHandles': 3, 'Depth': depth},
                    invariants=['AliasFree', 'Emit'], properties=['OnlyMutateChanges', 'CopyEquals', 'AnswersNeverChange'])
    res = run_tlc('GVHeap', cfg=cfg, workers=8, timeout=3000, heap='8g')
    ctx.add_tlc(res, f'GVHeap: all operation sequences of length {depth} over <= 3 handles')
    # AliasFree for every number of handles and every depth (TLAPS); the proof depends on the specification only
    from harness.tlc import run_tlapm
    proved, tail = run_tlapm(['GVHeap.tla', 'GVHeapProofs.tla'], 'GVHeapProofs.tla')
    if proved is None:
        raise RuntimeError('TLAPS could not discharge GVHeapProofs:\n' + tail)
    ctx.cov['obligations'] = ctx.cov['discharged'] = proved
    ctx.log(f'TLAPS: AliasFree is an invariant of GVHeap for every bound ({proved} obligations)')
    behs = sorted(set(tuple(tuple(x) for x in t[1]) for t in res.find('HEAP')))   # the same history is emitted once per choice of changed answers
    behs = [list(b) for b in behs]
    if replay:
        art = json.load(open(replay))['replay']
        if 'behaviour' in art:
            behs = [[tuple(x) for x in art['behaviour']]] * 20
    ctx.log(f'{len(behs)} behaviours')
    chunk = len(behs) // 16 + 1
    with mp.Pool(16) as pool:
        results = pool.map(_chunk, [(ctx.seed * 131 + i, behs[c0:c0 + chunk], ctx.quick) for i, c0 in enumerate(range(0, len(behs), chunk))])
    n_ops = 0
    merged, cross = {}, 0
    for n, problems, memo, _ in results:
        n_ops += n
        for p in problems[:2]:
            ctx.violation(f"{p['what']} (composition {p['comps']}, via {p['via']}, behaviour {[b[0] for b in p['behaviour']]})", p)
        # history-independence across processes: every process met the questions in another order, with other caches
        for k, a in memo.items():
            if k in merged and merged[k] != a:
                cross += 1
            merged.setdefault(k, a)
    if cross:
        ctx.violation(f'{cross} deterministic questions (same state, action, component) were answered differently in different worker processes, '
                      f'i.e. after different histories of calls', {'kind': 'cross_history', 'questions': cross})
    ctx.add_part('questions compared across histories and processes', distinct_questions=len(merged), conflicts=cross)
    nontrivial = sum(1 for b in behs if any(b[i][0] in ('Step', 'Copy') and any(x[0] == 'Mutate' for x in b[i + 1:]) for i in range(len(b))))
    ctx.add_counts(evaluations=n_ops, nontrivial=nontrivial, traces=len(behs))
    ctx.add_part('heap behaviours on real states', behaviours=len(behs), operations=n_ops)
    ctx.sample({'behaviour': [list(x) for x in behs[len(behs) // 2]]})
    if replay:
        return
    # cache histories on the real shortest-path cache (capacity 10) and ray cache (capacity 128)
    keys = dijkstra_keys(rng, 14)
    behs_c, resc = cachereplay.model_behaviours(ctx.work, cap=10, nkeys=13, depth=30 if ctx.quick else 500, num=20 if ctx.quick else 60, seed=ctx.seed + 7)
    ctx.add_tlc(resc, 'GVCache simulation (capacity 10, 13 keys)')
    behs_s, ress = cachereplay.model_behaviours(ctx.work, cap=2, nkeys=3, depth=6)
    ctx.add_tlc(ress, 'GVCache exhaustive (capacity 2, 3 keys, depth 6)')
    unc = reward_fs.dijkstra.__wrapped__
    n1, mm1 = cachereplay.replay(reward_fs.dijkstra, unc, lambda k: keys[k - 1], behs_c, equal=lambda a, b: a == b, freeze=lambda x: x.tobytes() + bytes(str(x.shape), 'ascii'))
    for m in [x for x in mm1 if x.get('drift')][:3]:
        ctx.drift(f'cache counters differ from the GVCache model (capacity / policy is not part of the property): {m}')
    for m in [x for x in mm1 if not x.get('drift')][:3]:
        ctx.violation(f'shortest-path cache (dijkstra): {m["what"]}', {'kind': 'cache', 'detail': m})
    from functools import lru_cache
    small = lru_cache(maxsize=2)(unc)
    n2, mm2 = cachereplay.replay(small, unc, lambda k: keys[k - 1], behs_s[:: (5 if ctx.quick else 1)], equal=lambda a, b: a == b,
                                 freeze=lambda x: x.tobytes() + bytes(str(x.shape), 'ascii'))
    for m in [x for x in mm2 if not x.get('drift')][:3]:
        ctx.violation(f'lru_cache(2)(dijkstra): {m["what"]}', {'kind': 'cache', 'detail': m})
    # the shortest-path reward through the cache: same question, same answer, whatever was asked in between
    rf = build.reward(steps.C('getting_closer_shortest_path', object_type='Exit'))
    qs = []
    for _ in range(30 if ctx.quick else 300):
        h, w = rng.randint(2, 5), rng.randint(2, 5)
        grid = [[steps.FLOOR if rng.random() < 0.7 else O('Wall') for _ in range(w)] for _ in range(h)]
        ey, ex = rng.randrange(h), rng.randrange(w)
        grid[ey][ex] = O('Exit')
        s1 = {'grid': grid, 'pos': [rng.randrange(h), rng.randrange(w)], 'ori': 'F', 'item': steps.HELD[0]}
        s2 = dict(s1, pos=[rng.randrange(h), rng.randrange(w)])
        qs.append((s1, s2))
    first = {}
    for rnd in range(3):
        order = list(range(len(qs)))
        rng.shuffle(order)
        for qi in order:
            s1, s2 = qs[qi]
            a = float(rf(proj.state_from_json(s1), Action.MOVE_FORWARD, proj.state_from_json(s2)))
            if qi in first and first[qi] != a:
                ctx.violation('getting_closer_shortest_path: a repeated question got a different answer (cache history)', {'kind': 'spreward', 's1': s1, 's2': s2})
            first.setdefault(qi, a)
    ctx.add_counts(evaluations=n1 + n2 + 3 * len(qs), traces=len(behs_c) + len(behs_s))
    ctx.add_part('cache histories', dijkstra_queries=n1 + n2, shortest_path_reward_questions=3 * len(qs))


if __name__ == '__main__':
    main(run, 'C03')
