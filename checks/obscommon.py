"""Shared engine of the observation checks (C05, C06, C07)."""
from __future__ import annotations

import json
import os

from harness import obs
from harness.tlc import run_tlc, write_cfg
from checks.stepcommon import sst


def run_obs_part(ctx, name, jobs, prefixes):
    paths, counts = obs.run_jobs(os.path.join(ctx.work, name), jobs, tag=name)
    bad, tot = obs.validate(paths)
    if tot['done'] != counts['records'] + len(paths):
        raise RuntimeError(f'{name}: TLC validated {tot["done"]} of {counts["records"] + len(paths)} records')
    ctx.add_tlc(tot, f'Trace_Obs on {name}')
    ctx.add_counts(evaluations=counts['records'], nontrivial=counts['nontrivial'], traces=counts['records'])
    nv = 0
    for b in bad:
        mine = [c for c in b['clauses'] if any(c.startswith(p) for p in prefixes)]
        rec = obs.load_record(b['shard'], b['id'])
        if mine:
            what = f"{name}: {','.join(mine)} {rec.get('fname')} area={rec.get('area')} on [{sst(rec['st'])}]"
            if rec['kind'] == 'obs':
                what += f" -> {rec['outcome']} [{sst(rec['ob'])}]"
            ctx.violation(what, {'kind': 'obs', 'record': rec, 'clauses': mine})
            nv += 1
        elif any(c.startswith('DRIFT') for c in b['clauses']):
            ctx.drift(f"{name}: observation differs from the operational model: {rec.get('fname')} area={rec.get('area')} [{sst(rec['st'])}]")
    ctx.add_part(name, records=counts['records'], with_hidden_and_shown=counts['nontrivial'], violations=nv)
    with open(paths[0]) as f:
        f.readline()
        line = f.readline()
        if line:
            rec = json.loads(line)
            ctx.sample({'part': name, 'kind': rec['kind'], 'function': rec.get('fname'), 'area': rec.get('area'),
                        'state': sst(rec['st']), 'observation': sst(rec['ob'])})
    for p in paths:
        os.remove(p)
    return nv


def replay_obs(ctx, path, prefixes):
    art = json.load(open(path))['replay']
    rec = art['record']
    if rec['kind'] == 'obs':
        job = dict(kind='obs', rec_id=0, fname=rec['fname'], area_json=rec['area'], st_json=rec['st'], want=rec['want'],
                   ospace=rec['ospace'][0] if rec.get('ospace') else None)
    elif rec['kind'] == 'pair':
        job = dict(kind='pair', rec_id=0, fname=rec['fname'], area_json=rec['area'], st_json=rec['st'], cell=rec['cell'],
                   new_obj=rec['st2']['grid'][rec['cell'][0]][rec['cell'][1]], want=rec['want'])
    else:
        job = dict(kind='rot', rec_id=0, fname=rec['fname'], area_json=rec['area'], st_json=rec['st'], r=rec['rot'], want=rec['want'])
    n = run_obs_part(ctx, 'replay', [job], prefixes)
    ctx.log('replay reproduces the violation' if n else 'replay: no violation on the current tree')


def mc_obs(ctx, maxdim, b, invariants):
    cfg = write_cfg(os.path.join(ctx.work, 'MC_Obs.cfg'), constants={'MaxDim': maxdim, 'B': b}, invariants=invariants)
    res = run_tlc('MC_Obs', cfg=cfg, workers=16, timeout=3000, check=False, heap='8g')
    if res.violated:
        ctx.violation(f'specification-level invariant {res.violated} fails in MC_Obs (model inconsistency)',
                      {'kind': 'model', 'module': 'MC_Obs', 'invariant': res.violated, 'tail': res.raw[-3000:]})
    elif res.rc != 0:
        raise RuntimeError('TLC failed on MC_Obs:\n' + res.raw[-3000:])
    ctx.add_tlc(res, f'MC_Obs shapes<={maxdim}x{maxdim} areas in -{b}..{b} invariants={invariants}')
    ctx.log(f'MC_Obs: {res.distinct} distinct states')
