"""C15 - numeric representations lie inside their declared spaces.
C16 - numeric representations are faithful (run with the property id as argument)."""
import json
import os
import random
import sys

from harness import boot  # noqa
from harness import config, proj, reps, steps
from harness.checklib import main
from harness.tlc import run_tlc
from checks.stepcommon import sst


def shapes_for(kind, quick):
    if kind == 'state':
        return [(2, 2), (2, 3), (3, 3)] if quick else [(2, 2), (2, 3), (3, 2), (3, 3), (4, 5), (5, 5)]
    return [(2, 3), (3, 3), (2, 1)] if quick else [(2, 3), (3, 3), (2, 1), (4, 5), (7, 7), (5, 3)]


def run_prop(ctx, prop, replay=None):
    rng = random.Random(ctx.seed)
    prefixes = [prop]
    if replay:
        art = json.load(open(replay))['replay']
        jobs = [art['job']]
    else:
        ctx.cov['rule'] = ('representation records from make_*_representation(name, space): declared spaces, convert(member) arrays with dtypes / contains() / gym spaces, '
                           'and pairs of members; validated by TLC against GVRepresentation (bounds, exact positional encoding, lossless <=> equal); '
                           'distinct_nontrivial = distinct converted arrays')
        ctx.assumptions += ['members carry only the types and colours their space declares; grid shapes >= 2x2, view shapes of odd width',
                            'float entries of the agent array are compared as exact rationals (numerators over H-1, W-1)']
        res = run_tlc('MC_Rep', workers=16, timeout=3000, heap='8g')
        ctx.add_tlc(res, 'MC_Rep: all subsets of object types x colour subsets x 3 encodings x {state, observation}')
        jobs = []
        rid = 0
        for kind in ('state', 'observation'):
            spaces = list(reps.all_spaces(kind))
            chosen = spaces if not ctx.quick else rng.sample(spaces, 400)
            # the spaces of the shipped configurations
            for path in config.shipped_files():
                d = config.load(path)
                k = 'state_space' if kind == 'state' else 'observation_space'
                chosen.append((list(d[k]['objects']), [c for c in d[k]['colors'] if c != 'NONE']))
            # spaces that list the implicit types explicitly (every 9th)
            chosen = [((ts + ['NoneGridObject'] + (['Hidden'] if kind == 'observation' and k % 2 else [])) if k % 9 == 4 else ts, cs) for k, (ts, cs) in enumerate(chosen)]
            for si, (ts, cs) in enumerate(chosen):
                shapes = shapes_for(kind, ctx.quick)
                (h, w) = shapes[si % len(shapes)]
                space_json = {'shape': [h, w], 'types': ts, 'colors': cs}
                for name in reps.REP_NAMES:
                    jobs.append(dict(rkind='space', rec_id=rid, kind=kind, name=name, space_json=space_json))
                    rid += 1
                    members = reps.covering_members(kind, space_json)
                    if ctx.quick:
                        members = members[:: max(1, len(members) // 6)]
                    members += [reps.random_member(rng, kind, space_json) for _ in range(2)]
                    for st in members:
                        jobs.append(dict(rkind='conv', rec_id=rid, kind=kind, name=name, space_json=space_json, st_json=st))
                        rid += 1
                    if kind == 'state' and 'Door' in ts and (prop == 'C16' or not ctx.quick) and h >= 1 and w >= 2:
                        # a closed door in front of the agent: opened through the dynamics after the hashes were taken
                        g = [[steps.FLOOR if 'Floor' in ts else steps.O('Door', 0, 'NONE') for _ in range(w)] for _ in range(h)]
                        g[0][1] = steps.O('Door', 1, 'NONE')
                        jobs.append(dict(rkind='pairhist', rec_id=rid, kind=kind, name=name, space_json=space_json,
                                         st1={'grid': g, 'pos': [0, 0], 'ori': 'R', 'item': proj.NONE_OBJ}))
                        rid += 1
                    if prop == 'C16' or not ctx.quick:
                        for _ in range(4 if ctx.quick else 12):
                            a = reps.random_member(rng, kind, space_json)
                            b = rng.choice([a, reps.mutate_one_field(rng, kind, space_json, a), reps.mutate_one_field(rng, kind, space_json, a),
                                            reps.random_member(rng, kind, space_json)])
                            jobs.append(dict(rkind='pair', rec_id=rid, kind=kind, name=name, space_json=space_json, st1=a, st2=b))
                            rid += 1
        # trajectories of the shipped configurations: every state / observation representation is contained
        for path in config.shipped_files():
            data = config.load(path)
            env = config.build_env(data)
            sspace = {'shape': list(env.state_space.grid_shape.as_tuple), 'types': [t.__name__ for t in env.state_space.object_types],
                      'colors': [c.name for c in env.state_space.colors if c.name != 'NONE']}
            ospace = {'shape': list(env.observation_space.grid_shape.as_tuple), 'types': [t.__name__ for t in env.observation_space.object_types],
                      'colors': [c.name for c in env.observation_space.colors if c.name != 'NONE']}
            for ep in range(1 if ctx.quick else 5):
                env.set_seed(ctx.seed * 7919 + ep)
                env.reset()
                for t in range(12 if ctx.quick else 60):
                    name = reps.REP_NAMES[(t + ep) % 3]
                    jobs.append(dict(rkind='conv', rec_id=rid, kind='state', name=name, space_json=sspace, st_json=proj.state_to_json(env.state)))
                    jobs.append(dict(rkind='conv', rec_id=rid + 1, kind='observation', name=name, space_json=ospace, st_json=proj.obs_to_json(env.observation)))
                    rid += 2
                    r, done = env.step(rng.choice(env.action_space.actions))
                    if done:
                        env.reset()
    jobs_copy = [dict(j) for j in jobs]
    paths, counts = reps.run_jobs(os.path.join(ctx.work, 'rep'), jobs)
    bad, tot = reps.validate(paths)
    if tot['done'] != counts['records']:
        raise RuntimeError('TLC validated %d of %d records' % (tot['done'], counts['records']))
    ctx.add_tlc(tot, 'Trace_Rep')
    ctx.add_counts(evaluations=counts['records'], nontrivial=counts['distinct'], traces=counts['records'])
    ctx.add_part('representation records', records=counts['records'], distinct_arrays=counts['distinct'])
    by_id = {j['rec_id']: j for j in jobs_copy}
    for b in bad:
        mine = [c for c in b['clauses'] if any(c.startswith(p) for p in prefixes)]
        if not mine:
            if any(c.startswith('DRIFT') for c in b['clauses']):
                rec = reps.load_record(b['shard'], b['id'])
                ctx.drift(f"{rec['kind_']} representation '{rec['name']}' of space {json.dumps(rec['space'])}: {b['clauses']} (numbering / bounds differ from the specification's, the stated properties hold)")
            continue
        rec = reps.load_record(b['shard'], b['id'])
        what = f"{','.join(mine)}: {rec['kind_']} representation '{rec['name']}' of space {json.dumps(rec['space'])}"
        if rec['kind'] == 'conv':
            what += f" member [{sst(rec['st'])}]"
        if rec['kind'] == 'pair':
            what += f" pair [{sst(rec['st1'])}] vs [{sst(rec['st2'])}]"
        job = by_id.get(b['id']) or dict(rkind='conv', rec_id=0, kind=rec['kind_'], name=rec['name'], space_json=rec['space'], st_json=rec.get('st'))
        if rec.get('late'):
            what += ' [converted again after other representations had been built, against the spaces advertised at construction]'
        ctx.violation(what, {'kind': 'rep', 'job': job, 'clauses': mine})
    with open(paths[0]) as f:
        for line in f:
            rec = json.loads(line)
            if rec['kind'] == 'conv' and rec['outcome'] == 'ok':
                ctx.sample({'space': rec['space'], 'representation': rec['name'], 'member': sst(rec['st']), 'item_array': rec['conv']['item']})
                break
    for p in paths:
        os.remove(p)
    ctx.cov['exhaustive'] = not ctx.quick


def run(ctx, replay=None):
    return run_prop(ctx, 'C15', replay)


if __name__ == '__main__':
    main(run, 'C15')
