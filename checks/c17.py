"""C17 - configurations build exactly the environment they describe, or are rejected."""
import copy
import filecmp
import functools
import hashlib
import inspect
import json
import os
import random

from harness import boot  # noqa
from harness import build, config, obs as obsh, proj, resets, steps
from harness.checklib import main
from harness.tlc import run_many, run_tlc, write_cfg
from checks.stepcommon import sst

import numpy as np
from gym_gridverse.action import Action
from gym_gridverse.envs import (observation_functions as observation_fs, reset_functions as reset_fs, reward_functions as reward_fs,
                                terminating_functions as terminating_fs, transition_functions as transition_fs,
                                visibility_functions as visibility_fs)
from gym_gridverse.envs.gridworld import GridWorld
from gym_gridverse.envs.yaml.factory import factory_env_from_data
from gym_gridverse.geometry import Shape, distance_function_factory
from gym_gridverse.grid_object import Color, grid_object_registry
from gym_gridverse.spaces import ActionSpace, ObservationSpace, StateSpace

REG = {'reset': reset_fs.reset_function_registry, 'transition': transition_fs.transition_function_registry,
       'reward': reward_fs.reward_function_registry, 'terminating': terminating_fs.terminating_function_registry,
       'observation': observation_fs.observation_function_registry, 'visibility': visibility_fs.visibility_function_registry}

# mirror of GVConfig!Registry, compared with the specification (drift) in registry_drift()
SPEC_TABLE = None


def apply_corruption(data, kind, path, key, value):
    d = copy.deepcopy(data)
    node = d
    for p in path:
        node = node[p - 1] if isinstance(p, int) else node[p]
    if kind == 'set_name':
        node['name'] = value
    elif kind == 'remove_param':
        del node[key]
    elif kind == 'add_param':
        node[key] = json.loads(value)
    elif kind == 'set_value':
        node[key] = json.loads(value)
    elif kind == 'set_top':
        d[key] = json.loads(value)
    elif kind == 'remove_top':
        del d[key]
    elif kind == 'reverse_params':
        items = list(node.items())
        node.clear()
        node.update(reversed(items))
    elif kind == 'wrap_visibility':
        d['observation_function'] = {'name': 'from_visibility', 'area': node['area'], 'visibility_function': json.loads(value)}
    return d


def classify(data):
    from schema import SchemaError
    before = copy.deepcopy(data)
    try:
        env = factory_env_from_data(data)
        out = 'accept'
    except (SchemaError, ValueError):
        out, env = 'reject', None
    except Exception as e:
        out, env = 'other:' + type(e).__name__, None
    return out, env, data == before


def hand_assemble(data, table):
    """assemble the described environment by hand from the registered functions (no factories)"""
    def params(kind, comp):
        name = comp['name'].split(':')[-1]
        accepted = table[kind][name]
        kw = {}
        for k, v in comp.items():
            if k == 'name' or k not in accepted:
                continue
            if k == 'shape':
                kw[k] = Shape(*v)
            elif k == 'layout':
                kw[k] = tuple(v)
            elif k == 'area':
                kw[k] = proj.area_from_json(v)
            elif k == 'object_type':
                kw[k] = grid_object_registry.from_name(v)
            elif k == 'colors':
                kw[k] = set(Color[c] for c in v)
            elif k == 'distance_function':
                kw[k] = distance_function_factory(v)
            elif k == 'transition_functions':
                kw[k] = [fn('transition', c) for c in v]
            elif k == 'reward_functions':
                kw[k] = [fn('reward', c) for c in v]
            elif k == 'terminating_functions':
                kw[k] = [fn('terminating', c) for c in v]
            elif k == 'visibility_function':
                kw[k] = fn('visibility', v)
            else:
                kw[k] = v
        return kw

    def fn(kind, comp):
        return functools.partial(REG[kind][comp['name'].split(':')[-1]], **params(kind, comp))

    reset = fn('reset', data['reset_function'])
    trans = functools.partial(REG['transition']['chain'], transition_functions=[fn('transition', c) for c in data['transition_functions']])
    rew = functools.partial(REG['reward']['reduce_sum'], reward_functions=[fn('reward', c) for c in data['reward_functions']])
    obsf = fn('observation', data['observation_function'])
    term = fn('terminating', data['terminating_function'])
    st = reset()
    ob = obsf(st)
    sspace = StateSpace(st.grid.shape, [grid_object_registry.from_name(n.split(':')[-1]) for n in data['state_space']['objects']], [Color[c] for c in data['state_space']['colors']])
    ospace = ObservationSpace(ob.grid.shape, [grid_object_registry.from_name(n.split(':')[-1]) for n in data['observation_space']['objects']],
                              [Color[c] for c in data['observation_space']['colors']])
    aspace = ActionSpace([Action[a] for a in data['action_space']]) if 'action_space' in data else ActionSpace(list(Action))
    return GridWorld(sspace, aspace, ospace, reset, trans, obsf, rew, term)


def spec_table(ctx):
    """required / accepted parameters per registry and name, as the specification states them (printed by TLC)"""
    # evaluate the table with a tiny TLC run of spec/GVConfigTable.tla (a committed module: nothing is written into
    # spec/ at run time, several checks may run side by side)
    pf = os.path.join(ctx.work, 'dummy_cfg.json')
    json.dump(config.load(config.shipped_files()[0]), open(pf, 'w'))
    res = run_tlc('GVConfigTable', cfg='GVConfig', env={'PARAM_FILE': pf}, workers=1, check=False)
    t = res.find('TABLE')[0][1]
    table = {k: {n: set(v[0]['set']) | set(v[1]['set']) for n, v in names.items()} for k, names in t.items()}
    required = {k: {n: set(v[0]['set']) for n, v in names.items()} for k, names in t.items()}
    return table, required, res


def registry_drift(ctx, table, required):
    for kind, reg in REG.items():
        for name, f in reg.items():
            sig = inspect.signature(f)
            nonproto = reg.get_nonprotocol_parameters(sig)
            req = {p.name for p in nonproto if p.default is inspect.Parameter.empty}
            acc = {p.name for p in nonproto}
            if name not in table.get(kind, {}):
                if getattr(f, '__module__', '').startswith('gym_gridverse'):
                    ctx.drift(f'registry {kind}: component {name} is not in the specification table')
            elif table[kind][name] != acc or required[kind][name] != req:
                ctx.drift(f'registry {kind}.{name}: specification says required={sorted(required[kind][name])} accepted={sorted(table[kind][name])}, '
                          f'code has required={sorted(req)} accepted={sorted(acc)}')
        for name in table.get(kind, {}):
            if name not in reg:
                ctx.drift(f'registry {kind}: the specification lists {name}, which is not registered')


def traj_records(env, data, cfg, seed, nsteps, rid0):
    """run an environment; step records (for Trace_Step), reset records, observation records.
    An environment that raises while it is run gets the digest 'raise:<exception>' (total: the comparison with the
    hand-assembled environment then reports it)"""
    try:
        return _traj_records(env, data, cfg, seed, nsteps, rid0)
    except Exception as e:
        return 'raise:' + type(e).__name__ + ':' + str(e)[:120], [], [], []


def _traj_records(env, data, cfg, seed, nsteps, rid0):
    rng = random.Random(seed)
    env.set_seed(seed)
    env.reset()
    space = {'shape': list(env.state_space.grid_shape.as_tuple), 'types': [t.__name__ for t in env.state_space.object_types],
             'colors': [c.name for c in env.state_space.colors]}
    srecs, orecs, rrecs = [], [], []
    f, p = config.reset_params(cfg)
    rrecs.append({'id': rid0, 'f': f, 'p': p, 'outcome': 'ok', 'st': proj.state_to_json(env.state), 'drift': False, 'seed': seed})
    digest = hashlib.sha256()
    for t in range(nsteps):
        st = proj.state_to_json(env.state)
        ob = proj.obs_to_json(env.observation)
        a = rng.choice(env.action_space.actions)
        r, d = env.step(a)
        nxt = proj.state_to_json(env.state)
        digest.update(json.dumps([st, ob, a.name, repr(float(r)), bool(d)], sort_keys=True).encode())
        srecs.append({'id': rid0 + t, 'want': ['C01', 'C12', 'C17', 'DRIFT'], 'fam': '', 'fi': -1, 'fsize': -1, 'k': -1, 'space': space,
                      'comps': cfg['comps'], 'rew': [cfg['rew']], 'term': [cfg['term']], 'st': st,
                      'acts': [{'a': a.name, 'outcome': 'ok', 'full': False, 'same': False, 'support': [nxt], 'r': [proj.milli(r)],
                                'rtype': ['float' if isinstance(r, float) else type(r).__name__], 'rfinite': [True], 'rexact': [proj.is_milli_exact(r)], 'done': [bool(d)],
                                'dtype': ['bool' if isinstance(d, (bool, np.bool_)) else type(d).__name__]}], 'mutated': False})
        fname = cfg['obs']['name']
        fankey = ''
        if obsh.needs_fan(fname):
            h, w, y, x = obsh.view_geometry(cfg['obs']['area'])
            fankey, _ = obsh.fan_for(h, w, y, x)
        orecs.append({'id': rid0 + t, 'kind': 'obs', 'want': ['C05', 'C01', 'DRIFT'], 'fname': fname, 'area': cfg['obs']['area'], 'st': st,
                      'outcome': 'ok', 'ob': ob, 'fankey': fankey,
                      'ospace': [{'shape': list(env.observation_space.grid_shape.as_tuple), 'types': [t.__name__ for t in env.observation_space.object_types],
                                  'colors': [c.name for c in env.observation_space.colors]}]})
        if d:
            env.reset()
            rrecs.append({'id': rid0 + t + 1, 'f': f, 'p': p, 'outcome': 'ok', 'st': proj.state_to_json(env.state), 'drift': False, 'seed': seed})
    return digest.hexdigest(), srecs, orecs, rrecs


def probe_differs(env_a, env_b, seed=5):
    """the two environments, seeded alike, must pay and terminate alike on probes a short random walk rarely reaches:
    every action from the reset state and a step onto every Exit from every free neighbour cell"""
    from gym_gridverse.geometry import Orientation, Position
    from gym_gridverse.grid_object import Exit
    from gym_gridverse.utils.fast_copy import fast_copy

    def both(f):
        out = []
        for e in (env_a, env_b):
            e.set_seed(seed)
            try:
                out.append(f(e))
            except Exception as ex:
                out.append('raise:' + type(ex).__name__)
        return out[0] != out[1]

    env_a.set_seed(seed)
    s0 = env_a.functional_reset()
    for a in env_a.action_space.actions:
        if both(lambda e: (lambda r: (proj.state_to_json(r[0]), repr(float(r[1])), bool(r[2])))(e.functional_step(fast_copy(s0), a))):
            return f'functional_step({a.name}) from the reset state'
    if Action.MOVE_FORWARD not in env_a.action_space.actions:
        return None
    for pos in s0.grid.area.positions():
        if not isinstance(s0.grid[pos], Exit):
            continue
        for ori in Orientation:
            back = pos - Position.from_orientation(ori)
            if not s0.grid.area.contains(back) or s0.grid[back].blocks_movement:
                continue
            s = fast_copy(s0)
            s.agent.position, s.agent.orientation = back, ori
            if both(lambda e: (lambda r: (repr(float(r[1])), bool(r[2])))(e.functional_step(fast_copy(s), Action.MOVE_FORWARD))):
                return f'step onto the exit at {pos} from {back}'
    return None


def registry_part(ctx):
    """behaviours of the GVRegistry machine replayed on fresh registry instances (conformance beyond the listed property: drift only)"""
    from harness.tlc import tla_set
    from gym_gridverse.envs.transition_functions import TransitionFunctionRegistry
    from gym_gridverse.grid_object import GridObjectRegistry, Color

    depth = 4 if ctx.quick else 5
    cfg = write_cfg(os.path.join(ctx.work, 'GVRegistry.cfg'), constants={'Names': tla_set(['alpha', 'beta']), 'Depth': depth},
                    invariants=['NamesUnique', 'LookupAfterRegister', 'Emit'])
    res = run_tlc('GVRegistry', cfg=cfg, workers=4, timeout=1200)
    ctx.add_tlc(res, f'GVRegistry: all operation sequences of length {depth}')
    from harness.tlc import run_tlapm
    proved, tail = run_tlapm(['GVRegistry.tla', 'GVRegistryProofs.tla'], 'GVRegistryProofs.tla')
    if proved is None:
        ctx.drift('TLAPS could not discharge GVRegistryProofs (NamesUnique for every depth)')
    else:
        ctx.log(f'TLAPS: NamesUnique is an invariant of GVRegistry for every bound ({proved} obligations)')
    behs = [t[1] for t in res.find('REG')]
    n = mism = 0
    for beh in behs:
        freg = TransitionFunctionRegistry()
        oreg = GridObjectRegistry()
        for (op, name, outcome, extra) in beh:
            n += 1
            got, val = 'ok', 0
            try:
                if op == 'register':
                    def f(state, action, *, rng=None):
                        return None
                    f.__name__ = name
                    freg.register(f)
                elif op == 'register_bad_signature':
                    def g(state, action):
                        return None
                    g.__name__ = name
                    freg.register(g)
                elif op == 'register_bad_arity':
                    def g1(state):
                        return None
                    g1.__name__ = name
                    freg.register(g1)
                elif op == 'register_nothing':
                    freg.register()
                elif op == 'lookup':
                    freg[name]
                elif op == 'define_class':
                    cls = type(name, (), {})
                    oreg.register(cls)
                    val = oreg.index(cls)
                elif op == 'from_name':
                    val = oreg.index(oreg.from_name(name))
            except Exception as e:
                got = type(e).__name__
            if got != outcome or (outcome == 'ok' and op in ('define_class', 'from_name') and val != extra):
                mism += 1
                ctx.drift(f'registry behaviour {[b[0] + ":" + b[1] for b in beh]}: {op}({name}) -> {got}/{val}, the GVRegistry machine says {outcome}/{extra}')
                break
    ctx.add_counts(evaluations=n, traces=len(behs))
    ctx.add_part('registry machine (GVRegistry) replayed on fresh registries', behaviours=len(behs), operations=n, mismatches=mism)


def run(ctx, replay=None):
    rng = random.Random(ctx.seed)
    ctx.cov['rule'] = ('(i) every shipped file: packaged copy identical, id mapping, parse, build twice, input unchanged, and identical trajectories (digests) for two builds and '
                       'an environment assembled by hand from the registered functions with the parameters the specification\'s registry table accepts; every step, '
                       'reset and observation of those trajectories validated by TLC against the specification instantiated with the configuration (the described environment); '
                       '(ii) every single corruption enumerated by TLC from GVConfig with its verdict, applied to the real data and passed to factory_env_from_data; '
                       'distinct_nontrivial = corruptions + trajectory steps whose state changed')
    files = config.shipped_files()
    reg_files = config.registered_files()
    import sys
    sys.path.insert(0, os.path.join(boot.REPO, 'examples'))
    import coin_env  # noqa: F401  (registers the custom components of the coin example)
    table, required, tres = spec_table(ctx)
    ctx.add_tlc(tres, 'GVConfig registry table')
    registry_drift(ctx, table, required)
    # ---- packaged copies and ids
    from gym_gridverse.gym import STRING_TO_YAML_FILE
    names = sorted(os.path.basename(f) for f in files)
    if names != sorted(os.path.basename(f) for f in reg_files):
        ctx.violation('yaml/ and gym_gridverse/registered_envs/ do not hold the same files', {'kind': 'files', 'yaml': names})
    for f in files:
        twin = os.path.join(boot.REPO, 'gym_gridverse', 'registered_envs', os.path.basename(f))
        if os.path.exists(twin) and not filecmp.cmp(f, twin, shallow=False):
            ctx.violation(f'packaged copy of {os.path.basename(f)} differs from yaml/', {'kind': 'files', 'file': os.path.basename(f)})
    for env_id, fname in STRING_TO_YAML_FILE.items():
        if fname not in names:
            ctx.violation(f'registered id {env_id} points to {fname}, which is not shipped', {'kind': 'ids', 'id': env_id})
    if sorted(STRING_TO_YAML_FILE.values()) != names:
        ctx.violation('the registered ids do not cover exactly the shipped files', {'kind': 'ids'})
    # ---- build, repeatability, hand assembly, trajectories validated against the described environment
    all_files = files + [os.path.join(boot.REPO, 'examples', 'coin_env.yaml')]
    nseeds, nsteps = (2, 25) if ctx.quick else (10, 150)
    srecs, orecs, rrecs = [], [], []
    rid = 0
    import sys
    sys.path.insert(0, os.path.join(boot.REPO, 'examples'))
    for path in all_files:
        name = os.path.basename(path)
        data = config.load(path)
        keep = copy.deepcopy(data)
        out1, env1, same1 = classify(data)
        out2, env2, same2 = classify(data)
        if out1 != 'accept' or out2 != 'accept':
            ctx.violation(f'{name}: shipped configuration does not build ({out1}, {out2})', {'kind': 'build', 'file': name})
            continue
        if not (same1 and same2 and data == keep):
            ctx.violation(f'{name}: building modified the input data', {'kind': 'build', 'file': name})
        cfg = config.spec_config(data)
        env3 = hand_assemble(data, table)
        if 'shape' in data['reset_function'] and env1.state_space.grid_shape.as_tuple != tuple(data['reset_function']['shape']):
            ctx.violation(f'{name}: state space shape differs from the configured shape', {'kind': 'build', 'file': name})
        (ymin, ymax), (xmin, xmax) = data['observation_function']['area']
        if env1.observation_space.grid_shape.as_tuple != (ymax - ymin + 1, xmax - xmin + 1):
            ctx.violation(f'{name}: observation space shape differs from the configured area', {'kind': 'build', 'file': name})
        for s in range(nseeds):
            seed = ctx.seed * 1009 + s
            d1, sr, orr, rr = traj_records(env1, data, cfg, seed, nsteps, rid)
            d2, _, _, _ = traj_records(env2, data, cfg, seed, nsteps, rid)
            d3, _, _, _ = traj_records(env3, data, cfg, seed, nsteps, rid)
            rid += nsteps + 5
            if d1 != d2:
                ctx.violation(f'{name}: two builds of the same data behave differently (seed {seed})', {'kind': 'build', 'file': name, 'seed': seed})
            if d1 != d3:
                ctx.violation(f'{name}: the built environment differs from the one assembled by hand from the named components (seed {seed})',
                              {'kind': 'hand', 'file': name, 'seed': seed})
            for r in sr + orr + rr:
                r['file'] = name
            srecs += sr
            orecs += orr
            rrecs += rr
    # validate trajectories against the described environment
    d = os.path.join(ctx.work, 'traj')
    os.makedirs(d, exist_ok=True)
    jobs, kinds = [], []
    ns = 8
    fans = {}
    for r in orecs:
        if r['fankey']:
            fans[r['fankey']] = obsh._fan_cache[r['fankey']]
    for s in range(ns):
        for kind, recs, module in (('step', srecs, 'Trace_Step'), ('obs', orecs, 'Trace_Obs'), ('reset', rrecs, 'Trace_Reset')):
            part = recs[s::ns]
            if not part:
                continue
            p = os.path.join(d, f'{kind}_{s}.ndjson')
            with open(p, 'w') as f:
                if kind == 'obs':
                    f.write(json.dumps({'id': -1, 'kind': 'fans', 'want': [], 'fans': fans}) + '\n')
                for r in part:
                    f.write(json.dumps(r, separators=(',', ':')) + '\n')
            jobs.append(dict(module=module, env={'TRACE_FILE': p}, workers=1, timeout=3000))
            kinds.append((kind, recs))
    results = run_many(jobs, parallel=16)
    for (kind, recs), res in zip(kinds, results):
        ctx.add_tlc(res, f'{res.module} on shipped trajectories')
        by_id = {}
        for r in recs:
            by_id.setdefault(r['id'], r)
        for t in res.find('BAD'):
            rec = by_id.get(t[1], {})
            clauses = sorted((t[3] if kind == 'step' else t[2])['set'])
            verdict = [c for c in clauses if not c.startswith('DRIFT')] if kind != 'obs' else clauses
            if not verdict:
                ctx.drift(f"{rec.get('file')}: {kind} record differs from the operational model ({clauses})")
                continue
            clauses = verdict
            ctx.violation(f"{rec.get('file')}: the built environment does not behave like the described one: {kind} record fails {clauses} on [{sst(rec['st']) if 'st' in rec else ''}]",
                          {'kind': 'traj', 'file': rec.get('file'), 'clauses': clauses, 'record': rec})
    nontrivial = sum(1 for r in srecs if r['acts'][0]['support'][0] != r['st'])
    ctx.add_counts(evaluations=len(srecs) + len(orecs) + len(rrecs), nontrivial=nontrivial, traces=len(all_files) * nseeds * 3)
    ctx.add_part('shipped files: build / repeatability / hand assembly / described environment', files=len(all_files), seeds=nseeds, steps=nsteps,
                 step_records=len(srecs), observation_records=len(orecs), reset_records=len(rrecs))
    # ---- corruptions
    base_files = [f for f in files if os.path.basename(f) in ('gv_keydoor.5x5.yaml', 'gv_dynamic_obstacles.7x7.yaml', 'gv_memory_four_rooms.7x7.yaml', 'gv_crossing.7x7.yaml', 'gv_teleport.5x5.yaml', 'gv_memory.9x9.yaml', 'gv_nine_rooms.13x13.yaml', 'gv_empty.8x8.yaml')] if ctx.quick else files
    jobs = []
    for path in base_files:
        pf = os.path.join(ctx.work, 'cfg_' + os.path.basename(path) + '.json')
        json.dump(config.load(path), open(pf, 'w'))
        jobs.append(dict(module='GVConfig', env={'PARAM_FILE': pf}, workers=1, timeout=1200))
    results = run_many(jobs, parallel=16)
    n_corr = 0
    for path, res in zip(base_files, results):
        name = os.path.basename(path)
        ctx.add_tlc(res, f'GVConfig corruptions of {name}')
        data = config.load(path)
        for t in res.find('CORR'):
            _, kind, cpath, key, value, verdict = t
            n_corr += 1
            try:
                bad = apply_corruption(data, kind, cpath, key, value)
            except Exception as e:
                raise RuntimeError(f'cannot apply corruption {t} to {name}: {e!r}')
            snapshot = copy.deepcopy(bad)
            out, env, unchanged = classify(bad)
            desc = f'{kind} {cpath} {key}={value}'
            if out != verdict:
                ctx.violation(f'{name}: corruption [{desc}] -> {out}, the specification says {verdict}',
                              {'kind': 'corruption', 'file': name, 'corruption': [kind, cpath, key, value], 'verdict': verdict, 'observed': out})
            elif out == 'accept' and kind == 'set_top' and key == 'action_space' and [a.name for a in env.action_space.actions] != json.loads(value):
                ctx.violation(f'{name}: configured action order {value} became {[a.name for a in env.action_space.actions]}',
                              {'kind': 'corruption', 'file': name, 'corruption': [kind, cpath, key, value]})
            elif out == 'accept' and kind in ('add_param', 'remove_param', 'set_value', 'set_top', 'wrap_visibility', 'reverse_params'):
                # still the described environment: compare with the hand-assembled one
                env3 = hand_assemble(snapshot, table)
                cfg = config.spec_config(snapshot)
                d1, _, _, _ = traj_records(env, snapshot, cfg, 5, 15, 0)
                d3, _, _, _ = traj_records(env3, snapshot, cfg, 5, 15, 0)
                if d1 != d3:
                    ctx.violation(f'{name}: after [{desc}] the built environment differs from the hand-assembled one',
                                  {'kind': 'corruption', 'file': name, 'corruption': [kind, cpath, key, value]})
                else:
                    where = probe_differs(env, env3)
                    if where:
                        ctx.violation(f'{name}: after [{desc}] the built environment differs from the hand-assembled one on {where}',
                                      {'kind': 'corruption', 'file': name, 'corruption': [kind, cpath, key, value], 'probe': where})
            if len(ctx.cov['samples']) < 4:
                ctx.sample({'file': name, 'corruption': desc, 'verdict': verdict, 'observed': out})
    ctx.add_counts(evaluations=n_corr, nontrivial=n_corr, traces=n_corr)
    ctx.add_part('single corruptions', files=[os.path.basename(f) for f in base_files], corruptions=n_corr)
    # ---- component factories: name + parameters behaves like the underlying function
    n_f = 0
    O = steps.O
    g = [[O('Floor'), O('Exit'), O('Key', 0, 'RED')], [O('Wall'), O('Beacon', 0, 'RED'), O('Door', 1, 'RED')], [O('MovingObstacle'), O('Floor'), O('Floor')]]
    triples = []
    for (p1, o1, p2, a) in [([0, 0], 'R', [0, 1], 'MOVE_FORWARD'), ([0, 0], 'B', [0, 0], 'MOVE_FORWARD'), ([2, 1], 'L', [2, 0], 'MOVE_FORWARD'),
                            ([1, 1], 'R', [1, 1], 'ACTUATE'), ([0, 1], 'R', [0, 1], 'PICK_N_DROP')]:
        s1 = {'grid': g, 'pos': p1, 'ori': o1, 'item': O('NoneGridObject')}
        g2 = json.loads(json.dumps(g))
        s2 = {'grid': g2, 'pos': p2, 'ori': o1, 'item': O('NoneGridObject')}
        if a == 'ACTUATE':
            g2[1][2] = O('Door', 0, 'RED')
        if a == 'PICK_N_DROP':
            g2[0][2] = O('Floor')
            s2['item'] = O('Key', 0, 'RED')
        triples.append((proj.state_from_json(s1), Action[a], proj.state_from_json(s2)))
    for kind, mod in (('reward', reward_fs), ('terminating', terminating_fs)):
        for name, f in REG[kind].items():
            if name in ('reduce',) or name not in table[kind]:
                continue
            base_kw = {}
            for k in required[kind].get(name, set()):
                base_kw[k] = {'object_type': grid_object_registry.from_name('Exit'),
                              'reward_functions': [functools.partial(REG['reward']['living_reward'], reward=0.25)],
                              'terminating_functions': [REG['terminating']['reach_exit']]}[k]
            optional = sorted(table[kind][name] - required[kind].get(name, set()))
            variants = [dict(base_kw)]
            for k in optional:
                if k.startswith('reward'):
                    # falsy and non-default values
                    variants += [dict(base_kw, **{k: 0.0}), dict(base_kw, **{k: 0.375}), dict(base_kw, **{k: -2.5})]
            for kw in variants:
                try:
                    a_fn = mod.factory(name, bogus=1, **kw)
                    b_fn = functools.partial(f, **kw)
                    for (s1, act, s2) in triples:
                        n_f += 1
                        va, vb = a_fn(s1, act, s2), b_fn(s1, act, s2)
                        if va != vb:
                            ctx.violation(f'{kind} factory({name}, {[(k, v) for k, v in kw.items() if k in optional]}) returns {va!r}, the underlying function called with those parameters returns {vb!r}',
                                          {'kind': 'factory', 'name': name, 'params': {k: v for k, v in kw.items() if k in optional}})
                            break
                except Exception as e:
                    ctx.violation(f'{kind} factory({name}) with parameters {sorted(kw)} (and an unknown extra one) failed: {type(e).__name__}: {e}',
                                  {'kind': 'factory', 'name': name, 'error': repr(e)})
            for k in required[kind].get(name, set()):
                kw2 = {x: y for x, y in base_kw.items() if x != k}
                try:
                    mod.factory(name, **kw2)
                    ctx.violation(f'{kind} factory({name}) without required parameter {k} did not raise', {'kind': 'factory', 'name': name})
                except ValueError:
                    pass
                except Exception as e:
                    ctx.violation(f'{kind} factory({name}) without required parameter {k} raised {type(e).__name__} instead of ValueError', {'kind': 'factory', 'name': name})
    # reset functions by name: falsy flags and counts are parameters, not absences
    for (name, kw) in [('empty', dict(shape=Shape(5, 5), random_agent=False, random_exit=False)), ('empty', dict(shape=Shape(5, 5), random_agent=True, random_exit=False)),
                       ('dynamic_obstacles', dict(shape=Shape(6, 6), num_obstacles=0, random_agent=True)),
                       ('dynamic_obstacles', dict(shape=Shape(6, 6), num_obstacles=2, random_agent=False))]:
        for sd in range(3):
            try:
                x = reset_fs.factory(name, bogus=None, **kw)(rng=np.random.default_rng(sd))
                y = REG['reset'][name](rng=np.random.default_rng(sd), **kw)
                n_f += 1
                if not (x == y):
                    ctx.violation(f'reset factory({name}, {kw}) differs from the underlying function', {'kind': 'factory', 'name': name})
            except Exception as e:
                ctx.violation(f'reset factory({name}, {kw}) failed: {type(e).__name__}: {e}', {'kind': 'factory', 'name': name})
    ctx.add_counts(evaluations=n_f)
    ctx.add_part('component factories', components=n_f)
    registry_part(ctx)


if __name__ == '__main__':
    main(run, 'C17')
