"""C19 - rays are connected paths that sweep the whole area; caching does not affect them."""
import json
import math
import os
import random

from harness import boot  # noqa
from harness import cachereplay, obs
from harness.checklib import main
from harness.tlc import run_many, run_tlc, write_cfg

from gym_gridverse.geometry import Area, Position
from gym_gridverse.utils import raytracing as rt
from gym_gridverse.envs import visibility_functions as visibility_fs
from gym_gridverse.grid import Grid
from gym_gridverse.grid_object import Floor


def rays_json(rays):
    return [[[p.y, p.x] for p in ray] for ray in rays]


def _worker(args):
    path, jobs = args
    n_rays = 0
    with open(path, 'w') as f:
        for job in jobs:
            (ys, xs), (oy, ox) = job['area'], job['origin']
            area, origin = Area(tuple(ys), tuple(xs)), Position(oy, ox)
            if job['kind'] == 'fan':
                rays = rt.compute_rays_fancy(origin, area)
            elif job['kind'] == 'degrees':
                rays = rt.compute_rays(origin, area)
            else:
                rays = [rt.compute_ray(origin, area, radians=r, step_size=0.01) for r in job['radians']]
            n_rays += len(rays)
            rec = {'id': job['id'], 'kind': 'fan' if job['kind'] == 'fan' else 'ray', 'area': job['area'], 'origin': job['origin'],
                   'rays': rays_json(rays)}
            f.write(json.dumps(rec, separators=(',', ':')) + '\n')
    return len(jobs), n_rays


def run(ctx, replay=None):
    import multiprocessing as mp

    rng = random.Random(ctx.seed)
    ctx.cov['rule'] = ('every ray of compute_rays_fancy / compute_rays / compute_ray for all areas up to the bound and all origins, checked by TLC with '
                       'RayOK (start, inside, no repeat, 8-adjacent steps, ends on border) and FanCovers; cache histories generated from the GVCache model and '
                       'replayed on cached_compute_rays_fancy; distinct_nontrivial = number of rays with more than one cell')
    ctx.assumptions += ['the floating-point stepping is not modelled: the specification is a postcondition on logged rays']
    # M: the predicates are not vacuous, and FanOK implies an unobstructed view shows everything
    res = run_tlc('MC_Rays', workers=4)
    ctx.add_tlc(res, 'MC_Rays (self-check of ray predicates on synthetic fans)')
    jobs = []
    jid = 0
    if replay:
        art = json.load(open(replay))['replay']
        jobs.append(dict(id=0, kind=art['kind'], area=art['area'], origin=art['origin'], radians=art.get('radians', [])))
    else:
        maxdim = 5 if ctx.quick else 9
        areas = [[[0, h - 1], [0, w - 1]] for h in range(1, maxdim + 1) for w in range(1, maxdim + 1)]
        areas += [[[-6, 0], [-3, 3]], [[0, 6], [0, 6]], [[-2, 1], [-1, 3]], [[-1, 0], [-1, 1]]]
        # large and elongated areas (long straight runs along a row / column, far borders)
        areas += [[[0, 13], [0, 13]], [[0, 14], [0, 14]], [[0, 19], [0, 19]], [[0, 27], [0, 2]], [[0, 2], [0, 31]], [[-14, 0], [-7, 7]]]
        if not ctx.quick:
            areas += [[[-8, 0], [-4, 4]], [[0, 10], [0, 10]], [[-3, 3], [-5, 2]], [[0, 12], [0, 12]], [[0, 25], [0, 25]], [[0, 40], [0, 4]], [[-5, 30], [-20, 2]]]
        for a in areas:
            (y0, y1), (x0, x1) = a
            cells = [(y, x) for y in range(y0, y1 + 1) for x in range(x0, x1 + 1)]
            if len(cells) > 81:
                ym, xm = (y0 + y1) // 2, (x0 + x1) // 2
                cells = rng.sample(cells, 12 if ctx.quick else 40) + [(y0, x0), (y1, x1), (y0, x1), (y1, x0), (ym, xm), (y0, xm), (y1, xm), (ym, x0), (ym, x1)]
            for (y, x) in cells:
                jobs.append(dict(id=jid, kind='fan', area=a, origin=[y, x]))
                jid += 1
                if (y1 - y0 + 1) * (x1 - x0 + 1) <= (16 if ctx.quick else 49) or (y, x) == (y1, (x0 + x1) // 2):
                    jobs.append(dict(id=jid, kind='degrees', area=a, origin=[y, x]))
                    jid += 1
                jobs.append(dict(id=jid, kind='single', area=a, origin=[y, x],
                                 radians=[rng.uniform(-2 * math.pi, 2 * math.pi) for _ in range(4 if ctx.quick else 20)]))
                jid += 1
    d = os.path.join(ctx.work, 'rays')
    os.makedirs(d, exist_ok=True)
    rng.shuffle(jobs)
    ns = min(16, len(jobs))
    parts = [jobs[i::ns] for i in range(ns)]
    paths = [os.path.join(d, f'rays_{i:02d}.ndjson') for i in range(ns)]
    ctx.log(f'{len(jobs)} ray jobs')
    with mp.Pool(ns) as pool:
        counts = pool.map(_worker, list(zip(paths, parts)))
    ctx.log('rays computed')
    results = run_many([dict(module='Trace_Rays', env={'TRACE_FILE': p}, workers=1, timeout=3000) for p in paths], parallel=16)
    ctx.log('rays validated')
    n_rec = sum(c[0] for c in counts)
    n_rays = sum(c[1] for c in counts)
    done = 0
    by_id = {j['id']: j for j in jobs}
    for p, res in zip(paths, results):
        ctx.add_tlc(res, 'Trace_Rays')
        done += res.find('DONE')[0][1]
        for t in res.find('BAD'):
            j = by_id[t[1]]
            ctx.violation(f"ray defect {sorted(t[2]['set'])}: {j['kind']} area={j['area']} origin={j['origin']}",
                          {'kind': j['kind'], 'area': j['area'], 'origin': j['origin'], 'radians': j.get('radians', []), 'fails': sorted(t[2]['set'])})
    if done != n_rec:
        raise RuntimeError(f'TLC validated {done} of {n_rec} ray records')
    ctx.add_counts(evaluations=n_rays, nontrivial=n_rays, traces=n_rec)
    ctx.add_part('rays', records=n_rec, rays=n_rays)
    with open(paths[0]) as f:
        rec = json.loads(f.readline())
    ctx.sample({'kind': rec['kind'], 'area': rec['area'], 'origin': rec['origin'], 'first_rays': rec['rays'][:3]})
    for p in paths:
        os.remove(p)
    if replay:
        return
    # unobstructed ray-traced views show everything
    n_un = 0
    f = visibility_fs.factory('raytracing')
    for h in range(1, (6 if ctx.quick else 10)):
        for w in range(1, (6 if ctx.quick else 10)):
            grid = Grid.from_shape((h, w), factory=Floor)
            for y in range(h):
                for x in range(w):
                    n_un += 1
                    if not f(grid, Position(y, x)).all():
                        ctx.violation(f'unobstructed raytracing view {h}x{w} from ({y},{x}) hides a cell',
                                      {'kind': 'unobstructed', 'shape': [h, w], 'origin': [y, x]})
    ctx.add_part('unobstructed views', views=n_un)
    ctx.log('unobstructed views done')
    # cache histories: behaviours of GVCache replayed on the real cached function
    keys = []
    for h in range(2, 7):
        for w in range(2, 7):
            for y in range(h):
                for x in range(w):
                    keys.append((Position(y, x), Area((0, h - 1), (0, w - 1))))
    # the same absolute origin and the same shape in differently placed areas (a cache key must contain all of it)
    for (h, w) in [(3, 5), (4, 4), (2, 6), (5, 3)]:
        for (oy, ox) in [(0, 0), (-1, -2), (-(h - 1), -(w // 2)), (-(h // 2), 0)]:
            a = Area((oy, oy + h - 1), (ox, ox + w - 1))
            for p in [Position(0, 0), Position(oy + h - 1, ox + w // 2)]:
                if a.contains(p) and (p, a) not in keys:
                    keys.append((p, a))
    n_plain = sum(h * w for h in range(2, 7) for w in range(2, 7))
    plain, shifted = keys[:n_plain], keys[n_plain:]
    rng.shuffle(plain)
    keys = []
    for k, key in enumerate(plain):   # interleave so that the shifted areas are among the first 150 keys
        keys.append(key)
        if k % 4 == 0 and shifted:
            keys.append(shifted.pop())
    assert len(set(keys)) == len(keys)
    keys = keys[:150]
    behs_small, res1 = cachereplay.model_behaviours(ctx.work, cap=2, nkeys=3, depth=6)
    ctx.add_tlc(res1, 'GVCache exhaustive (cap 2, 3 keys, depth 6)')
    # the model's own guarantee - every answer is the function's value, whatever the history of hits, misses and
    # evictions - for every capacity, key range and depth (TLAPS); depends on the specification only
    from harness.tlc import run_tlapm
    proved, tail = run_tlapm(['GVCache.tla', 'GVCacheProofs.tla'], 'GVCacheProofs.tla')
    if proved is None:
        raise RuntimeError('TLAPS could not discharge GVCacheProofs:\n' + tail)
    ctx.cov['obligations'] = ctx.cov['discharged'] = proved
    ctx.log(f'TLAPS: InvAnswers is an invariant of GVCache for every bound ({proved} obligations)')
    depth = 160 if ctx.quick else 2000
    behs_big, res2 = cachereplay.model_behaviours(ctx.work, cap=128, nkeys=150, depth=depth, num=2 if ctx.quick else 6, seed=ctx.seed + 1)
    ctx.add_tlc(res2, f'GVCache simulation (cap 128, 150 keys, depth {depth})')
    ctx.log('cache behaviours generated')
    # a history with guaranteed evictions: sweep all keys twice, then random
    sweep = [(k, False) for k in range(1, 151)] + [(k, False) for k in range(1, 151)]
    n1, mm1 = cachereplay.replay(rt.cached_compute_rays_fancy, rt.compute_rays_fancy, lambda k: keys[k - 1], behs_big + [sweep])
    # the small exhaustive behaviours need a cache of capacity 2: wrap the same function the way the library does
    from functools import lru_cache
    small = lru_cache(maxsize=2)(rt.compute_rays_fancy)
    n2, mm2 = cachereplay.replay(small, rt.compute_rays_fancy, lambda k: keys[k - 1], behs_small[:: (7 if ctx.quick else 1)])
    for m in [x for x in mm1 if x.get('drift')][:3]:
        ctx.drift(f'cache counters differ from the GVCache model (capacity / policy is not part of the property): {m}')
    for m in [x for x in mm1 if not x.get('drift')]:
        ctx.violation(f'cached_compute_rays_fancy: {m["what"]}', {'kind': 'cache', 'detail': m})
    for m in [x for x in mm2 if not x.get('drift')]:
        ctx.violation(f'lru_cache(2)(compute_rays_fancy): {m["what"]}', {'kind': 'cache-small', 'detail': m})
    # the cached value after the library itself used it (visibility functions read the cached fan on every call)
    import numpy as _np
    from gym_gridverse.grid_object import Wall
    n_use = 0
    for (pos, area) in [k for k in keys if k[1].ymin == 0 and k[1].xmin == 0][: (12 if ctx.quick else 60)]:
        grid = Grid.from_shape((area.height, area.width), factory=Floor)
        grid[0, 0] = Wall()
        rt.cached_compute_rays_fancy.cache_clear() if hasattr(rt.cached_compute_rays_fancy, 'cache_clear') else None
        first_vis = None
        for rep_ in range(3):
            for fname in ('raytracing', 'stochastic_raytracing', 'raytracing'):
                vis = visibility_fs.factory(fname)(grid, pos, rng=_np.random.default_rng(1))
                if fname == 'raytracing':
                    if first_vis is not None and not (vis == first_vis).all():
                        ctx.violation(f'raytracing visibility changes when the same question is repeated (area {area}, origin {pos})',
                                      {'kind': 'cache-use', 'area': [[area.ymin, area.ymax], [area.xmin, area.xmax]], 'origin': [pos.y, pos.x]})
                    first_vis = vis if first_vis is None else first_vis
            n_use += 3
            if rays_json(rt.cached_compute_rays_fancy(pos, area)) != rays_json(rt.compute_rays_fancy(pos, area)):
                ctx.violation(f'the cached fan of area {area} from {pos} differs from the uncached one after the visibility functions used it',
                              {'kind': 'cache-use', 'area': [[area.ymin, area.ymax], [area.xmin, area.xmax]], 'origin': [pos.y, pos.x]})
                break
    ctx.add_part('cached fans after use by the visibility functions', uses=n_use)
    ctx.add_counts(evaluations=n1 + n2 + n_use, traces=len(behs_big) + 1 + len(behs_small))
    ctx.add_part('cache histories', queries=n1 + n2, behaviours=len(behs_big) + 1 + len(behs_small))


if __name__ == '__main__':
    main(run, 'C19')
