"""C11 - stochastic dynamics obey their rules for every random outcome."""
import random

from harness import boot  # noqa
from harness import steps
from harness.checklib import main
from checks import stepcommon as sc

PREFIX = ['C11', 'C01.raise']
O = steps.O
ALPHA_ST = [O('Wall'), O('MovingObstacle'), O('Exit'), O('Key', 0, 'RED'), O('Telepod', 0, 'RED'), O('Telepod', 0, 'BLUE')]


def random_layout(rng, h, w, n_obst, n_tele):
    grid = [[steps.FLOOR if rng.random() < 0.75 else rng.choice([O('Wall'), O('Exit'), O('Key', 0, 'RED'), O('Door', 0, 'RED')])
             for _ in range(w)] for _ in range(h)]
    cells = [(y, x) for y in range(h) for x in range(w)]
    rng.shuffle(cells)
    for (y, x) in cells[:n_obst]:
        grid[y][x] = O('MovingObstacle')
    for i, (y, x) in enumerate(cells[n_obst:n_obst + n_tele]):
        grid[y][x] = O('Telepod', 0, ['RED', 'RED', 'BLUE', 'RED', 'BLUE'][i % 5])
    # agent on a telepod half of the time
    pods = cells[n_obst:n_obst + n_tele]
    pos = rng.choice(pods) if pods and rng.random() < 0.6 else rng.choice(cells)
    return {'grid': grid, 'pos': list(pos), 'ori': rng.choice(steps.ORIS), 'item': steps.HELD[0]}


def run(ctx, replay=None):
    if replay:
        return sc.replay_step(ctx, replay)
    ctx.cov['rule'] = ('exact support of move_obstacles / teleport obtained with EnumeratingRNG, compared by TLC with the successor sets of '
                       'the specification (every outcome obeys ObstacleRule/TeleportRule; every free neighbour / partner occurs); '
                       'non-trivial = distinct (state, action, outcome) with outcome # state')
    ctx.assumptions += ['numpy Generator.choice(n) has full support 0..n-1', 'the outcome of both components ignores the action (checked for every action)']
    inv = sc.MC_STEP_INVARIANTS['C11']
    sc.mc_step(ctx, 'line', 'ShapesLine', None, 'FullAlpha', 'SmallHeld', [], inv)
    sc.mc_step(ctx, 'local33', 'Shapes33', 2 if ctx.quick else 3, 'StochAlpha', 'NoHeld', [], inv)
    acts_all = steps.ACTIONS
    acts_few = ['MOVE_FORWARD', 'ACTUATE'] if ctx.quick else acts_all
    for cname in ['only_obstacles', 'only_teleport']:
        for (h, w) in [(1, 2), (2, 1), (1, 1)]:
            sc.run_step_part(ctx, f'cell{h}x{w}_{cname}', sc.cell_jobs(h, w),
                             dict(comps=steps.COMPOSITIONS[cname], space=steps.family_space(h, w), via='direct', actions=acts_all),
                             PREFIX, exhaustive_family=f'S-cell {h}x{w}')
        for (h, w, k) in ([(3, 3, 2)] if ctx.quick else [(3, 3, 3), (2, 3, 3), (3, 2, 3)]):
            sc.run_step_part(ctx, f'local{h}x{w}k{k}_{cname}', sc.local_jobs(h, w, k, alphabet=ALPHA_ST, helds=steps.HELD[:1]),
                             dict(comps=steps.COMPOSITIONS[cname], space=steps.family_space(h, w), via='direct', actions=acts_few,
                                  enum_limit=5000),
                             PREFIX)
    # the shipped compositions containing the stochastic components, full support vs operational model
    for cname in ['obstacles', 'teleport', 'all']:
        sc.run_step_part(ctx, f'local3x3k2_{cname}', sc.local_jobs(3, 3, 2, alphabet=ALPHA_ST, helds=steps.HELD[:1]),
                         dict(comps=steps.COMPOSITIONS[cname], space=steps.family_space(3, 3), via='direct', actions=acts_few,
                              want=['C11', 'DRIFT']),
                         PREFIX, drift=True)
    # larger random layouts, seeded outcomes (membership only)
    rng = random.Random(ctx.seed)
    n = 300 if ctx.quick else 5000
    jobs = []
    for i in range(n):
        h, w = rng.randint(3, 7), rng.randint(3, 7)
        s = random_layout(rng, h, w, rng.randint(0, 4), rng.randint(0, 5))
        jobs.append(dict(rec_id=i, st_json=s, space=steps.family_space(h, w),
                         comps=steps.COMPOSITIONS[rng.choice(['only_obstacles', 'only_teleport'])],
                         seeds=[rng.randrange(2 ** 31) for _ in range(4 if ctx.quick else 10)]))
    sc.run_step_part(ctx, 'random_layouts', jobs, dict(comps=steps.COMPOSITIONS['only_obstacles'], via='direct', actions=['TURN_LEFT']), PREFIX)
    sc.live_chain_part(ctx, PREFIX, 200 if ctx.quick else 1500, seed_offset=4)
    ctx.cov['exhaustive'] = True


if __name__ == '__main__':
    main(run, 'C11')
