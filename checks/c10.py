"""C10 - doors, keys and boxes."""
import itertools

import os

from harness import boot  # noqa
from harness import steps
from harness.checklib import main
from checks import stepcommon as sc

PREFIX = ['C10']
COLORS = ['RED', 'GREEN', 'BLUE', 'YELLOW']


def door_family(box=False, colors=COLORS):
    """door status x colour x held item x relative pose (3x3 and 1x3 / 3x1 grids so that
    front / left / right / behind / diagonal / under / out of reach / outside are all present)"""
    O = steps.O
    helds = [O('NoneGridObject')] + [O('Key', 0, c) for c in colors] + [O('Wall'), O('Door', 2, 'RED')] + ([O('Beacon', 0, 'RED')] if len(colors) > 2 else [])
    if box:
        targets = [O('Box', 0, 'NONE', O('Key', 0, 'RED')), O('Box', 0, 'NONE', O('Floor')), O('Box', 0, 'NONE', O('Wall')),
                   O('Box', 0, 'NONE', O('Door', 2, 'BLUE')), O('Box', 0, 'NONE', O('Box', 0, 'NONE', O('Key', 0, 'RED')))]
        helds = helds[:3]
    else:
        targets = [O('Door', s, c) for s in (0, 1, 2) for c in colors + ['NONE']]
    out = []
    for (h, w) in [(3, 3), (1, 3), (3, 1), (1, 2), (2, 1), (1, 1)]:
        cells = [(y, x) for y in range(h) for x in range(w)]
        for tpos in cells:
            for tgt in targets:
                grid = [[steps.FLOOR for _ in range(w)] for _ in range(h)]
                grid[tpos[0]][tpos[1]] = tgt
                for apos in cells:
                    for ori in steps.ORIS:
                        for held in helds:
                            out.append({'grid': grid, 'pos': list(apos), 'ori': ori, 'item': held})
    return out


def run(ctx, replay=None):
    if replay:
        return sc.replay_step(ctx, replay)
    ctx.cov['rule'] = ('step records validated by TLC against DoorRule (status changes iff faced ACTUATE and closed or locked with matching key; '
                       'boxes replaced by content iff faced ACTUATE; held item unchanged by ACTUATE); non-trivial = next # state')
    sc.mc_step(ctx, 'line', 'ShapesLine', None, 'FullAlpha', 'FullHeld',
               ['all', 'keydoor'] if ctx.quick else ['keydoor', 'all', 'all2', 'nested'], sc.MC_STEP_INVARIANTS['C10'])
    sc.mc_step(ctx, 'local33', 'Shapes33', 1 if ctx.quick else 2, 'FullAlpha', 'FullHeld' if ctx.quick else 'SmallHeld', ['all'], sc.MC_STEP_INVARIANTS['C10'])
    cols = ['RED', 'BLUE'] if ctx.quick else COLORS
    fam = door_family(colors=cols)
    bfam = door_family(box=True, colors=cols)
    n = 0
    for cname in (['only_door', 'keydoor'] if ctx.quick else ['only_door', 'only_box', 'keydoor', 'all', 'all2', 'nested', 'unshaped']):
        jobs = [dict(rec_id=i, st_json=s, space=steps.family_space(len(s['grid']), len(s['grid'][0]))) for i, s in enumerate(fam)]
        sc.run_step_part(ctx, f'doors_{cname}', jobs,
                         dict(comps=steps.COMPOSITIONS[cname], space=steps.family_space(0, 0), via='direct'), PREFIX)
    for cname in (['only_box', 'all'] if ctx.quick else ['only_box', 'all', 'all2', 'nested']):
        jobs = [dict(rec_id=i, st_json=s, space=steps.family_space(len(s['grid']), len(s['grid'][0]))) for i, s in enumerate(bfam)]
        sc.run_step_part(ctx, f'boxes_{cname}', jobs,
                         dict(comps=steps.COMPOSITIONS[cname], space=steps.family_space(0, 0), via='direct'), PREFIX)
    for (h, w) in [(1, 2), (2, 1)]:
        sc.run_step_part(ctx, f'cell{h}x{w}_all', sc.cell_jobs(h, w),
                         dict(comps=steps.COMPOSITIONS['all'], space=steps.family_space(h, w), via='direct'),
                         PREFIX, exhaustive_family=f'S-cell {h}x{w}')
    ctx.add_part('door family', size=len(fam), box_family=len(bfam),
                 colours=cols, description='door status(3) x colours+NONE x held (none, key per colour, wall, door, beacon) x every relative pose on 3x3, 1x3, 3x1, 1x2, 2x1, 1x1 grids x 8 actions')
    sc.random_big_part(ctx, PREFIX, 300 if ctx.quick else 6000, seed_offset=3)
    sc.live_chain_part(ctx, PREFIX, 150 if ctx.quick else 1500, seed_offset=3)
    sc.mc_reach(ctx, ['InvDoorHistory', 'InvBeyondWall', 'InvDoorsStayDoors'])
    sc.apalache_lemmas(ctx, ['DoorLemma'], modules=('MC_GVSym_5x5',) if ctx.quick else ('MC_GVSym_5x5', 'MC_GVSym_7x9'))
    sc.history_part(ctx, PREFIX, ['gv_keydoor.5x5.yaml', 'gv_keydoor.7x7.yaml', 'gv_keydoor.9x9.yaml'] if ctx.quick else [os.path.basename(x) for x in __import__('harness.config', fromlist=['x']).shipped_files()],
                    400 if ctx.quick else 2000, range(2) if ctx.quick else range(4))
    ctx.cov['exhaustive'] = True


if __name__ == '__main__':
    main(run, 'C10')
