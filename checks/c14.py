"""C14 - every initial state is winnable."""
import json
import os
import random
from collections import deque

from harness import boot  # noqa
from harness import build, config, proj, rngtools, steps
from harness.checklib import main
from harness.tlc import run_many, write_cfg
from checks.stepcommon import sst

import numpy as np
from gym_gridverse.action import Action
from gym_gridverse.envs.transition_functions import transition_with_copy

C = steps.C
BASIC = [C('move_agent'), C('turn_agent')]
TERM_EXIT = C('reach_exit')
TERM_OBST = C('reduce_any', terminating_functions=[C('reach_exit'), C('bump_moving_obstacle'), C('bump_into_wall')])
ALLC = ['RED', 'GREEN', 'BLUE', 'YELLOW']

# small members of each reset family, with the dynamics of the shipped configuration of that family
M_CONFIGS_QUICK = [
    ('empty', {'shape': [4, 4], 'random_agent': True, 'random_exit': False}, BASIC, TERM_EXIT),
    ('empty', {'shape': [4, 5], 'random_agent': True, 'random_exit': True}, BASIC, TERM_EXIT),
    ('rooms', {'shape': [5, 5], 'layout': [2, 2]}, BASIC, TERM_EXIT),
    ('rooms', {'shape': [5, 7], 'layout': [1, 2]}, BASIC, TERM_EXIT),
    ('keydoor', {'shape': [5, 5]}, steps.COMPOSITIONS['keydoor'], TERM_EXIT),
    ('keydoor', {'shape': [4, 6]}, steps.COMPOSITIONS['keydoor'], TERM_EXIT),
    ('crossing', {'shape': [5, 5], 'num_rivers': 1, 'object_type': 'Wall'}, BASIC, TERM_EXIT),
    ('crossing', {'shape': [7, 7], 'num_rivers': 2, 'object_type': 'Wall'}, BASIC, TERM_EXIT),
    ('teleport', {'shape': [5, 5]}, steps.COMPOSITIONS['teleport'], TERM_EXIT),
    ('dynamic_obstacles', {'shape': [5, 5], 'num_obstacles': 1, 'random_agent': False}, steps.COMPOSITIONS['obstacles'], TERM_OBST),
    ('dynamic_obstacles', {'shape': [4, 4], 'num_obstacles': 2, 'random_agent': False}, steps.COMPOSITIONS['obstacles'], TERM_OBST),
    ('memory', {'shape': [5, 5], 'colors': ALLC}, BASIC, TERM_EXIT),
    ('memory_rooms', {'shape': [5, 5], 'layout': [2, 2], 'colors': ALLC, 'num_beacons': 1, 'num_exits': 2}, BASIC, TERM_EXIT),
]
M_CONFIGS_THOROUGH = M_CONFIGS_QUICK + [
    ('rooms', {'shape': [7, 7], 'layout': [2, 2]}, BASIC, TERM_EXIT),
    ('rooms', {'shape': [6, 8], 'layout': [2, 2]}, BASIC, TERM_EXIT),
    ('rooms', {'shape': [5, 9], 'layout': [1, 3]}, BASIC, TERM_EXIT),
    ('keydoor', {'shape': [6, 6]}, steps.COMPOSITIONS['keydoor'], TERM_EXIT),
    ('keydoor', {'shape': [4, 7]}, steps.COMPOSITIONS['keydoor'], TERM_EXIT),
    ('crossing', {'shape': [7, 7], 'num_rivers': 1, 'object_type': 'Wall'}, BASIC, TERM_EXIT),
    ('crossing', {'shape': [7, 9], 'num_rivers': 3, 'object_type': 'Wall'}, BASIC, TERM_EXIT),
    ('crossing', {'shape': [7, 9], 'num_rivers': 4, 'object_type': 'Wall'}, BASIC, TERM_EXIT),
    ('teleport', {'shape': [6, 6]}, steps.COMPOSITIONS['teleport'], TERM_EXIT),
    ('teleport', {'shape': [4, 4]}, steps.COMPOSITIONS['teleport'], TERM_EXIT),
    ('dynamic_obstacles', {'shape': [5, 5], 'num_obstacles': 2, 'random_agent': False}, steps.COMPOSITIONS['obstacles'], TERM_OBST),
    ('dynamic_obstacles', {'shape': [5, 5], 'num_obstacles': 2, 'random_agent': True}, steps.COMPOSITIONS['obstacles'], TERM_OBST),
    ('dynamic_obstacles', {'shape': [5, 6], 'num_obstacles': 3, 'random_agent': False}, steps.COMPOSITIONS['obstacles'], TERM_OBST),
    ('memory', {'shape': [7, 7], 'colors': ['RED', 'BLUE']}, BASIC, TERM_EXIT),
    ('memory', {'shape': [6, 9], 'colors': ALLC}, BASIC, TERM_EXIT),
    ('memory_rooms', {'shape': [5, 7], 'layout': [1, 2], 'colors': ALLC, 'num_beacons': 1, 'num_exits': 2}, BASIC, TERM_EXIT),
]


def goal_of(f):
    return 'memory' if f in ('memory', 'memory_rooms') else 'exit'


# ------------------------------------------------------------------ real code
class RealDynamics:
    """the real transition / termination functions of a configuration"""

    def __init__(self, comps, term, goal):
        self.tf = build.transition_list(comps)
        self.xf = build.termination(term)
        self.goal = goal
        self.stochastic = any(c['name'] in ('move_obstacles', 'teleport') for c in comps)

    def successors(self, st, action):
        """all (next state, terminal) pairs of the real step"""
        if not self.stochastic:
            nxt = transition_with_copy(self.tf, st, action, rng=np.random.default_rng(0))
            return [(nxt, bool(self.xf(st, action, nxt)))]
        outs, seen = [], set()

        def add(nxt):
            k = json.dumps(proj.state_to_json(nxt), sort_keys=True)
            if k not in seen:
                seen.add(k)
                outs.append((nxt, bool(self.xf(st, action, nxt))))
        try:
            for nxt, _ in rngtools.enumerate_outcomes(lambda rng: transition_with_copy(self.tf, st, action, rng=rng), limit=5000):
                add(nxt)
        except rngtools.NotEnumerable:
            # the code draws in a way that cannot be enumerated (or has too many outcomes): sample
            for sd in range(64):
                add(transition_with_copy(self.tf, st, action, rng=np.random.default_rng(sd)))
        return outs

    def is_goal(self, st):
        from gym_gridverse.grid_object import Beacon, Exit

        o = st.grid[st.agent.position]
        if not isinstance(o, Exit):
            return False
        if self.goal == 'exit':
            return True
        for pos in st.grid.area.positions():
            b = st.grid[pos]
            if isinstance(b, Beacon):
                return b.color == o.color
        return False

    def follow(self, st_json, plan):
        """does some resolution of the random outcomes make `plan` reach the goal without earlier termination?"""
        frontier = [proj.state_from_json(st_json)]
        for k, aname in enumerate(plan):
            nxt_frontier, seen = [], set()
            last = k == len(plan) - 1
            for st in frontier:
                for nxt, over in self.successors(st, Action[aname]):
                    if last:
                        if self.is_goal(nxt):
                            return True
                        continue
                    if over:
                        continue
                    key = json.dumps(proj.state_to_json(nxt), sort_keys=True)
                    if key not in seen:
                        seen.add(key)
                        nxt_frontier.append(nxt)
            frontier = nxt_frontier
            if not frontier:
                return False
        return False

    def search(self, st_json, max_states=200000):
        """breadth-first search over the real step function; returns a plan or None"""
        start = proj.state_from_json(st_json)
        q = deque([(start, [])])
        seen = {json.dumps(st_json, sort_keys=True)}
        while q:
            st, plan = q.popleft()
            for a in Action:
                for nxt, over in self.successors(st, a):
                    if self.is_goal(nxt):
                        return plan + [a.name]
                    if over:
                        continue
                    key = json.dumps(proj.state_to_json(nxt), sort_keys=True)
                    if key not in seen:
                        seen.add(key)
                        if len(seen) > max_states:
                            return None
                        q.append((nxt, plan + [a.name]))
        return None


def decode_sig(sig, h, w):
    """inverse of MC_Win!Sig"""
    types = ['NoneGridObject', 'Hidden', 'Floor', 'Wall', 'Exit', 'Door', 'Key', 'MovingObstacle', 'Box', 'Telepod', 'Beacon']
    colors = ['NONE', 'RED', 'GREEN', 'BLUE', 'YELLOW']
    cells = sig[3:]
    grid = [[None] * w for _ in range(h)]
    for k, code in enumerate(cells):
        t, rest = divmod(code, 100)
        c, s = divmod(rest, 10)
        grid[k // w][k % w] = steps.O(types[t], s, colors[c])
    return {'grid': grid, 'pos': [sig[0], sig[1]], 'ori': ['F', 'R', 'B', 'L'][sig[2]], 'item': steps.O('NoneGridObject')}


def relaxations(st_json, goal):
    """known-finding matchers: (name, relaxed state)"""
    out = []
    s = json.loads(json.dumps(st_json))
    if goal == 'memory':
        beacon = next(o['c'] for row in s['grid'] for o in row if o['t'] == 'Beacon')
        r = json.loads(json.dumps(s))
        changed = False
        for row in r['grid']:
            for x, o in enumerate(row):
                if o['t'] == 'Exit' and o['c'] != beacon:
                    row[x] = steps.FLOOR
                    changed = True
        if changed:
            out.append(('wrong_exits_removed', r))
    if any(o['t'] == 'MovingObstacle' for row in s['grid'] for o in row):
        r = json.loads(json.dumps(s))
        for row in r['grid']:
            for x, o in enumerate(row):
                if o['t'] == 'MovingObstacle':
                    row[x] = steps.FLOOR
        out.append(('obstacles_removed', r))
    return out


def judge_loser(ctx, label, f, p, st_json, dyn, producible=True):
    """an origin without a plan in the specification: confirm on the real code, match known findings"""
    real_plan = dyn.search(st_json)
    if real_plan is not None:
        ctx.drift(f'{label}: the specification finds no plan but the real code does ({real_plan[:12]}...) from [{sst(st_json)}]')
        return
    if not producible:
        ctx.drift(f'{label}: generative set of the specification contains an unwinnable state the code does not produce: [{sst(st_json)}]')
        return
    key = f'{f}:unwinnable'
    for name, relaxed in relaxations(st_json, dyn.goal):
        if dyn.search(relaxed) is not None:
            key = f'{f}:unwinnable:winnable_with_{name}'
            break
    ctx.violation(f'{label}: no action sequence reaches the goal from [{sst(st_json)}] ({key})',
                  {'kind': 'win', 'f': f, 'p': p, 'state': st_json, 'comps': None, 'label': label}, key=key)


def run(ctx, replay=None):
    rng = random.Random(ctx.seed)
    ctx.cov['rule'] = ('breadth-first search of the specification\'s dynamics (MC_Win) from every state of Init_<f>(p) for small members and from initial states '
                       'produced by the real reset functions for all shipped configurations; every plan found for a logged origin is replayed on the real '
                       'transition/termination functions; origins without a plan are re-searched on the real step function before being reported; '
                       'distinct_nontrivial = origins whose shortest plan has at least 2 actions')
    ctx.assumptions += ['for stochastic dynamics (obstacles, teleport) the random outcomes are part of the existential',
                        'memory_rooms small members are explored with fixed colours and orientation (neither affects reachability)']
    if replay:
        art = json.load(open(replay))['replay']
        f, p, st = art['f'], art['p'], art['state']
        cfgs = [c for c in M_CONFIGS_THOROUGH if c[0] == f]
        comps, term = (cfgs[0][2], cfgs[0][3]) if cfgs else (BASIC, TERM_EXIT)
        dyn = RealDynamics(comps, term, goal_of(f))
        judge_loser(ctx, 'replay', f, p, st, dyn)
        ctx.add_counts(evaluations=1, nontrivial=0, traces=1)
        ctx.cov['states'] = max(ctx.cov['states'], 1)
        ctx.cov['transitions'] = max(ctx.cov['transitions'], 1)
        return
    # the witnesses of the listed known findings are re-judged on every run
    for k in ctx.known:
        w = k.get('witness', {})
        if 'state' in w:
            judge_loser(ctx, 'known-finding witness ' + k['id'], w['f'], w['p'], w['state'], RealDynamics(BASIC, TERM_EXIT, goal_of(w['f'])))
    # ---------------------------------------------------------------- M: Init_<f>(p)
    mconfigs = M_CONFIGS_QUICK if ctx.quick else M_CONFIGS_THOROUGH
    cfg_init = write_cfg(os.path.join(ctx.work, 'MC_Win_init.cfg'), constants={'Source': '"init"'},
                         invariants=['InvWin', 'InvAgentOK', 'InvCount'], constraints=['Pending'], view='View', postcondition='Post')
    cfg_file = write_cfg(os.path.join(ctx.work, 'MC_Win_file.cfg'), constants={'Source': '"file"'},
                         invariants=['InvWin', 'InvAgentOK', 'InvCount'], constraints=['Pending'], view='View', postcondition='Post')
    jobs, meta = [], []
    for ci, (f, p, comps, term) in enumerate(mconfigs):
        big = f in ('rooms', 'memory_rooms', 'keydoor') and p['shape'][0] * p['shape'][1] >= 36
        nshards = 16 if big else (4 if f in ('rooms', 'keydoor', 'memory_rooms', 'dynamic_obstacles') else 1)
        for sh in range(nshards):
            pf = os.path.join(ctx.work, f'win_init_{ci}_{sh}.json')
            with open(pf, 'w') as fh:
                json.dump({'f': f, 'p': p, 'comps': comps, 'term': term, 'goal': goal_of(f), 'origins': [],
                           'maxdepth': 60, 'shard': sh, 'nshards': nshards}, fh)
            jobs.append(dict(module='MC_Win', cfg=cfg_init, env={'PARAM_FILE': pf}, workers=1, timeout=3000, check=False, heap='4g'))
            meta.append((ci, sh))
    results = run_many(jobs, parallel=16)
    ctx.log('M searches done')
    per_cfg = {}
    for (ci, sh), res in zip(meta, results):
        f, p, comps, term = mconfigs[ci]
        if res.violated == 'InvAgentOK':
            ctx.violation(f'specification-level AgentOK fails in the reachable graph of {f}{p}', {'kind': 'model', 'tail': res.raw[-2000:]})
        elif res.rc != 0 or not res.find('ORIGINS'):
            raise RuntimeError(f'MC_Win failed on {f} {p}:\n' + res.raw[-3000:])
        ctx.add_tlc(res, f'MC_Win[init] {f} {json.dumps(p)} shard {sh}')
        d = per_cfg.setdefault(ci, {'origins': 0, 'winners': 0, 'losers': [], 'wins': []})
        o = res.find('ORIGINS')[0]
        d['origins'] += o[1]
        d['winners'] += o[2]
        d['losers'] += [t[2] for t in res.find('LOSE')]
        d['wins'] += [(t[1], t[2]) for t in res.find('WIN')]
    n_plans = 0
    for ci, d in per_cfg.items():
        f, p, comps, term = mconfigs[ci]
        dyn = RealDynamics(comps, term, goal_of(f))
        h, w = p['shape']
        # replay the sampled plans of the specification on the real code
        for sig, plan in d['wins'][: (15 if ctx.quick else 200)]:
            st = decode_sig(sig, h, w)
            n_plans += 1
            if not dyn.follow(st, plan):
                ctx.violation(f'plan of the specification does not reach the goal on the real code: {f}{p} [{sst(st)}] plan={plan}',
                              {'kind': 'plan', 'f': f, 'p': p, 'state': st, 'plan': plan})
        support = None
        for sig in d['losers'][: (40 if ctx.quick else 400)]:
            st = decode_sig(sig, h, w)
            # is this origin really produced by the code? (all outputs of the real reset function, small shapes)
            producible = True
            if f != 'memory_rooms' and h * w <= 36:
                if support is None:
                    from harness import resets
                    try:
                        support = set(json.dumps(s, sort_keys=True) for s in resets.all_outputs(f, p, limit=30000))
                    except Exception:
                        support = False
                if support:
                    producible = json.dumps(st, sort_keys=True) in support
            judge_loser(ctx, f'Init_{f}{json.dumps(p)}', f, p, st, dyn, producible)
        ctx.add_part(f'M {f} {json.dumps(p)}', origins=d['origins'], winnable=d['winners'], unwinnable=len(d['losers']))
        ctx.add_counts(evaluations=d['origins'], nontrivial=d['winners'])
    ctx.log('M judged')
    # ------------------------------------------------- T: parameter sweeps, origins from the real reset functions
    sweep = []
    # (8, 8), (11, 8), (9, 9)/(3, 3): rooms of unequal sizes ((size - 1) % layout != 0) on both axes
    for sh in ([(5, 7), (7, 5), (6, 9), (8, 8)] if ctx.quick else [(5, 7), (7, 5), (6, 9), (9, 6), (5, 13), (8, 8), (10, 7), (11, 8), (9, 9)]):
        for layout in [(1, 2), (2, 1), (1, 3), (3, 1), (2, 2), (2, 3), (1, 1)] + ([(3, 3), (3, 2)] if sh[0] >= 8 else []):
            sweep.append(('rooms', {'shape': list(sh), 'layout': list(layout)}, BASIC, TERM_EXIT))
            sweep.append(('memory_rooms', {'shape': list(sh), 'layout': list(layout), 'colors': ALLC, 'num_beacons': 1, 'num_exits': 2}, BASIC, TERM_EXIT))
    for sh in [(5, 5), (5, 9), (9, 5), (7, 7), (9, 9)] + ([] if ctx.quick else [(11, 7), (7, 13), (13, 13)]):
        for n in (1, 2, 3, 5):
            sweep.append(('crossing', {'shape': list(sh), 'num_rivers': n, 'object_type': 'Wall'}, BASIC, TERM_EXIT))
    for sh in [(4, 5), (4, 7), (5, 5), (6, 7), (5, 8)] + ([] if ctx.quick else [(8, 8), (4, 12), (10, 6)]):
        sweep.append(('keydoor', {'shape': list(sh)}, steps.COMPOSITIONS['keydoor'], TERM_EXIT))
        sweep.append(('teleport', {'shape': list(sh)}, steps.COMPOSITIONS['teleport'], TERM_EXIT))
        sweep.append(('empty', {'shape': list(sh), 'random_agent': True, 'random_exit': True}, BASIC, TERM_EXIT))
    for sh in [(5, 5), (5, 7), (7, 5)] + ([] if ctx.quick else [(6, 9), (9, 5)]):
        sweep.append(('memory', {'shape': list(sh), 'colors': ['RED', 'GREEN']}, BASIC, TERM_EXIT))
    from harness import resets
    jobs, meta = [], []
    nsw = 8 if ctx.quick else 60
    for si, (f, p, comps, term) in enumerate(sweep):
        origins, seen = [], set()
        # room layouts: passages are drawn per wall segment, a rare draw matters: many more seeds (the search is cheap there)
        for sd in range(nsw * 6 if f in ('rooms', 'memory_rooms') else nsw):
            outcome, st = resets.call_reset(f, p, np.random.default_rng(ctx.seed * 7919 + si * 131 + sd))
            if outcome != 'ok':
                break
            k = json.dumps(st, sort_keys=True)
            if k not in seen:
                seen.add(k)
                origins.append(st)
        if not origins:
            continue
        pf = os.path.join(ctx.work, f'win_sweep_{si}.json')
        with open(pf, 'w') as fh:
            json.dump({'f': f, 'p': p, 'comps': comps, 'term': term, 'goal': goal_of(f), 'origins': origins, 'maxdepth': 120, 'shard': 0, 'nshards': 1}, fh)
        jobs.append(dict(module='MC_Win', cfg=cfg_file, env={'PARAM_FILE': pf}, workers=1, timeout=3000, check=False, heap='4g'))
        meta.append((f, p, comps, term, origins))
    n_sw = n_sw_win = 0
    for (f, p, comps, term, origins), res in zip(meta, run_many(jobs, parallel=16)):
        label = f'{f}{json.dumps(p)}'
        if res.violated == 'InvAgentOK':
            ctx.violation(f'AgentOK fails in the reachable graph of {label}', {'kind': 'model', 'tail': res.raw[-2000:]})
            continue
        if res.rc != 0 or not res.find('ORIGINS'):
            raise RuntimeError(f'MC_Win failed on {label}:\n' + res.raw[-3000:])
        ctx.add_tlc(res, f'MC_Win[file] sweep {label}')
        dyn = RealDynamics(comps, term, goal_of(f))
        n_sw += len(origins)
        wins = res.find('WIN')
        n_sw_win += len(wins)
        for t in wins[:3]:
            n_plans += 1
            if not dyn.follow(origins[t[1] - 1], t[2]):
                ctx.violation(f'{label}: plan found on the specification fails on the real code from [{sst(origins[t[1] - 1])}] plan={t[2]}',
                              {'kind': 'plan', 'f': f, 'p': p, 'state': origins[t[1] - 1], 'plan': t[2]})
        for t in res.find('LOSE'):
            judge_loser(ctx, 'sweep ' + label, f, p, origins[t[1] - 1], dyn)
    ctx.add_counts(evaluations=n_sw, nontrivial=n_sw_win)
    ctx.add_part('T parameter sweeps (origins from the real reset functions)', parameter_sets=len(meta), seeds=nsw, distinct_origins=n_sw, winnable=n_sw_win)
    ctx.log('sweeps done')
    # ------------------------------------------------- T: origins from the real reset functions
    files = config.shipped_files()
    nseeds = 25 if ctx.quick else 300
    jobs, meta = [], []
    for fi, path in enumerate(files):
        data = config.load(path)
        cfg = config.spec_config(data)
        env = config.build_env(data)
        origins = []
        seen = set()
        stochastic = any(c['name'] == 'move_obstacles' for c in cfg['comps'])
        for s in range((3 if ctx.quick else 30) if stochastic else nseeds):
            env.set_seed(ctx.seed * 100003 + s)
            st = proj.state_to_json(env.functional_reset())
            k = json.dumps(st, sort_keys=True)
            if k not in seen:
                seen.add(k)
                origins.append(st)
        chunk = 1 if stochastic else (5 if cfg['reset']['name'] in ('keydoor', 'memory_rooms', 'rooms') else 13)
        for c0 in range(0, len(origins), chunk):
            pf = os.path.join(ctx.work, f'win_file_{fi}_{c0}.json')
            with open(pf, 'w') as fh:
                json.dump({'f': cfg['reset']['name'], 'p': {}, 'comps': cfg['comps'], 'term': cfg['term'], 'goal': config.goal_kind(cfg),
                           'origins': origins[c0:c0 + chunk], 'maxdepth': 120, 'shard': 0, 'nshards': 1}, fh)
            jobs.append(dict(module='MC_Win', cfg=cfg_file, env={'PARAM_FILE': pf}, workers=1, timeout=3000, check=False, heap='4g'))
            meta.append((fi, c0, origins[c0:c0 + chunk], cfg))
    ctx.log('T origins generated')
    results = run_many(jobs, parallel=16)
    ctx.log('T searches done')
    n_orig = n_win = 0
    dyn_cache = {}
    for (fi, c0, origins, cfg), res in zip(meta, results):
        name = os.path.basename(files[fi])
        if res.violated == 'InvAgentOK':
            ctx.violation(f'AgentOK fails in the reachable graph of {name}', {'kind': 'model', 'tail': res.raw[-2000:]})
            continue
        if res.rc != 0 or not res.find('ORIGINS'):
            raise RuntimeError(f'MC_Win failed on {name}:\n' + res.raw[-3000:])
        ctx.add_tlc(res, f'MC_Win[file] {name} origins {c0}..')
        dyn = dyn_cache.setdefault(fi, RealDynamics(cfg['comps'], cfg['term'], config.goal_kind(cfg)))
        f, p = config.reset_params(cfg)
        n_orig += len(origins)
        for t in res.find('WIN'):
            idx, plan = t[1], t[2]
            n_win += 1
            n_plans += 1
            if len(plan) >= 2:
                ctx.cov['distinct_nontrivial'] += 1
            if not dyn.follow(origins[idx - 1], plan):
                ctx.violation(f'{name}: plan found on the specification fails on the real code from [{sst(origins[idx - 1])}] plan={plan}',
                              {'kind': 'plan', 'f': f, 'p': p, 'state': origins[idx - 1], 'plan': plan})
            elif len(ctx.cov['samples']) < 4:
                ctx.sample({'config': name, 'origin': sst(origins[idx - 1]), 'plan': plan})
        for t in res.find('LOSE'):
            judge_loser(ctx, name, f, p, origins[t[1] - 1], dyn)
    ctx.add_counts(evaluations=n_orig, traces=n_plans)
    ctx.add_part('T shipped configurations', files=len(files), seeds=nseeds, distinct_origins=n_orig, winnable=n_win, plans_replayed_on_code=n_plans)


if __name__ == '__main__':
    main(run, 'C14')
