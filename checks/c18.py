"""C18 - geometry is a consistent algebra of quarter turns and rigid motions."""
import itertools
import json
import os
import random
import shutil
import subprocess
import tempfile
import time

from harness import boot  # noqa
from harness import proj
from harness.checklib import main
from harness.tlc import SPEC, run_many, run_tlc, write_cfg

from gym_gridverse.action import Action
from gym_gridverse.agent import Agent
from gym_gridverse.envs.utils import get_next_position
from gym_gridverse.geometry import Area, Orientation, Position, Transform, get_manhattan_boundary
from gym_gridverse.grid import Grid
from gym_gridverse.grid_object import Exit, Key, Color

ON = proj.ORI_NAME
OF = proj.ORI_OF
ORIS = ['F', 'R', 'B', 'L']


def P(p):
    return Position(p[0], p[1])


def A(a):
    return Area((a[0][0], a[0][1]), (a[1][0], a[1][1]))


def TR(t):
    return Transform(P(t['p']), OF[t['o']])


def pj(p):
    return [int(p.y), int(p.x)]


def aj(a):
    return [[int(a.ymin), int(a.ymax)], [int(a.xmin), int(a.xmax)]]


def tj(t):
    return {'p': pj(t.position), 'o': ON[t.orientation]}


def label_grid(h, w):
    return [[{'t': 'Key', 's': 0, 'c': 'RED', 'in': [], 'l': y * w + x} for x in range(w)] for y in range(h)]


def ops_for(a_ori, b_ori, p, q, area, t, u, action):
    """records for one tuple of arguments"""
    out = []

    def op(name, a, b, res):
        out.append({'kind': 'op', 'op': name, 'a': a, 'b': b, 'res': res})

    op('ori_mul', a_ori, b_ori, ON[OF[a_ori] * OF[b_ori]])
    op('ori_neg', a_ori, 0, ON[-OF[a_ori]])
    op('ori_value', a_ori, 0, OF[a_ori].value)
    op('rot_pos', a_ori, p, pj(OF[a_ori] * P(p)))
    op('rot_pos', a_ori, p, pj(P(p) * OF[a_ori]))
    op('rot_area', a_ori, area, aj(OF[a_ori] * A(area)))
    op('pos_add', p, q, pj(P(p) + P(q)))
    op('pos_sub', p, q, pj(P(p) - P(q)))
    op('pos_neg', p, 0, pj(-P(p)))
    op('pos_add_area', p, area, aj(P(p) + A(area)))
    op('manhattan', p, q, int(Position.manhattan_distance(P(p), P(q))))
    if max(abs(p[0] - q[0]), abs(p[1] - q[1])) < 20000:
        op('euclid2', p, q, int(round(Position.euclidean_distance(P(p), P(q)) ** 2)))
    op('delta', a_ori, 0, pj(Position.from_orientation(OF[a_ori])))
    op('t_mul', t, u, tj(TR(t) * TR(u)))
    op('t_neg', t, 0, tj(-TR(t)))
    op('t_apply_pos', t, p, pj(TR(t) * P(p)))
    op('t_apply_area', t, area, aj(TR(t) * A(area)))
    op('t_apply_ori', t, a_ori, ON[TR(t) * OF[a_ori]])
    op('area_dims', area, 0, [A(area).height, A(area).width])
    op('area_contains', area, p, bool(A(area).contains(P(p))))
    op('next_position', t, action, pj(get_next_position(P(t['p']), OF[t['o']], Action[action])))
    op('front', t, 0, pj(Agent(P(t['p']), OF[t['o']]).front()))
    # laws on the code's own results
    def law(name, lhs, rhs):
        out.append({'kind': 'law', 'op': name, 'lhs': lhs, 'rhs': rhs})

    T, U = TR(t), TR(u)
    law('t_inverse', tj(T * (-T)), tj(Transform(Position(0, 0), Orientation.F)))
    law('t_action', pj((T * U) * P(p)), pj(T * (U * P(p))))
    law('t_assoc', tj((T * U) * TR({'p': q, 'o': b_ori})), tj(T * (U * TR({'p': q, 'o': b_ori}))))
    law('rot_action', pj(OF[a_ori] * (OF[b_ori] * P(p))), pj((OF[a_ori] * OF[b_ori]) * P(p)))
    law('area_contains_transformed', bool(A(area).contains(P(p))), bool((T * A(area)).contains(T * P(p))))
    return out


LIMB = 2 ** 29
NLIMBS = 3


def _split(v, part):
    """signed limb `part` (centred remainders, base 2^29; the last limb keeps what is left) of every integer inside a JSON value"""
    if isinstance(v, bool) or isinstance(v, str):
        return v
    if isinstance(v, int):
        for k in range(NLIMBS):
            lo = ((v + LIMB // 2) % LIMB) - LIMB // 2 if k < NLIMBS - 1 else v
            if k == part:
                return lo
            v = (v - lo) // LIMB
    if isinstance(v, list):
        return [_split(x, part) for x in v]
    if isinstance(v, dict):
        return {k: _split(x, part) for k, x in v.items()}
    return v


def _fits(v):
    if isinstance(v, bool) or isinstance(v, str):
        return True
    if isinstance(v, int):
        return abs(v) < 2 ** 30
    if isinstance(v, list):
        return all(_fits(x) for x in v)
    if isinstance(v, dict):
        return all(_fits(x) for x in v.values())
    return True


def huge_ops_for(a_ori, b_ori, p, q, t, u, action):
    """the coordinate-linear operators on coordinates far beyond 64 bits.  Every operator here is Z-linear in the
    coordinates of its arguments (coefficients 0, 1, -1) apart from a constant unit step, so with
    c = l0 + l1 * 2^29 + l2 * 2^58 (|l_k| < 2^25, so that sums of four limbs stay below half the base) the result
    splits uniquely into the operator applied limb by limb: each limb is an ordinary record for Trace_Geom.  The unit
    step of front / next_position belongs to limb 0; on the higher limbs these two operators are the identity (pos_add 0)."""
    out = []

    def op(name, a, b, compute, hi_as=None):
        try:
            res = compute()
        except Exception as e:
            out.append({'kind': 'raises', 'op': name + '_huge', 'outcome': type(e).__name__, 'expect': 'ok'})
            return
        if not all(_fits(_split(res, part)) for part in range(NLIMBS)):
            out.append({'kind': 'raises', 'op': name + '_huge', 'outcome': 'result of another magnitude than the arguments', 'expect': 'ok'})
            return
        for part in range(NLIMBS):
            if part >= 1 and hi_as is not None:
                out.append({'kind': 'op', 'op': hi_as, 'a': _split(a['p'], part), 'b': [0, 0], 'res': _split(res, part), 'limb': part})
            else:
                out.append({'kind': 'op', 'op': name, 'a': _split(a, part), 'b': _split(b, part), 'res': _split(res, part), 'limb': part})

    op('rot_pos', a_ori, p, lambda: pj(OF[a_ori] * P(p)))
    op('rot_pos', a_ori, p, lambda: pj(P(p) * OF[a_ori]))
    op('pos_add', p, q, lambda: pj(P(p) + P(q)))
    op('pos_sub', p, q, lambda: pj(P(p) - P(q)))
    op('pos_neg', p, 0, lambda: pj(-P(p)))
    op('t_mul', t, u, lambda: tj(TR(t) * TR(u)))
    op('t_neg', t, 0, lambda: tj(-TR(t)))
    op('t_apply_pos', t, p, lambda: pj(TR(t) * P(p)))
    op('t_apply_ori', t, a_ori, lambda: ON[TR(t) * OF[a_ori]])
    op('next_position', t, action, lambda: pj(get_next_position(P(t['p']), OF[t['o']], Action[action])), hi_as='pos_add')
    op('front', t, 0, lambda: pj(Agent(P(t['p']), OF[t['o']]).front()), hi_as='pos_add')

    def law(name, lhs, rhs):
        try:
            l, r = lhs(), rhs()
        except Exception as e:
            out.append({'kind': 'raises', 'op': name + '_huge', 'outcome': type(e).__name__, 'expect': 'ok'})
            return
        if not all(_fits(_split(x, part)) for part in range(NLIMBS) for x in (l, r)):
            out.append({'kind': 'raises', 'op': name + '_huge', 'outcome': 'result of another magnitude than the arguments', 'expect': 'ok'})
            return
        for part in range(NLIMBS):
            out.append({'kind': 'law', 'op': name, 'lhs': _split(l, part), 'rhs': _split(r, part), 'limb': part})

    T, U = TR(t), TR(u)
    law('t_inverse', lambda: tj(T * (-T)), lambda: tj(Transform(Position(0, 0), Orientation.F)))
    law('t_action', lambda: pj((T * U) * P(p)), lambda: pj(T * (U * P(p))))
    law('rot_inverse', lambda: pj((-OF[a_ori]) * (OF[a_ori] * P(p))), lambda: list(p))
    law('rot_action', lambda: pj(OF[a_ori] * (OF[b_ori] * P(p))), lambda: pj((OF[a_ori] * OF[b_ori]) * P(p)))
    return out


def run(ctx, replay=None):
    rng = random.Random(ctx.seed)
    ctx.cov['rule'] = ('(i) TLAPS proofs of the group / action / transform / area laws over Int (GVGeometryProofs); (ii) the same laws and the finite-set statements '
                       'model-checked exhaustively for small coordinates (MC_Geom); (iii) every public operator of geometry.py, Grid rotation, get_next_position, '
                       'get_manhattan_boundary run on the exhaustive small domain and on random coordinates up to 2^29 and compared by TLC with the specification; '
                       'distinct_nontrivial = distinct (operator, arguments) records')
    ctx.assumptions += ['unbounded quantification is proved for the specification; the code is bound to it by exhaustive small + random large agreement '
                        '(the operators branch on the orientation only, never on coordinates)', 'TLC integers are 32-bit: coordinates below 2^29 are compared directly; the coordinate-linear operators are additionally run on coordinates up to 2^83 (2^53 + 1 and its neighbours included) and compared limb by limb (three signed limbs, base 2^29)']
    # (i) proofs
    t0 = time.time()
    from harness.tlc import run_tlapm
    proved, tail = run_tlapm(['GVGeometry.tla', 'GVGeometryProofs.tla'], 'GVGeometryProofs.tla')
    if proved is None:
        # the proofs depend on the specification only: a failure is a failure of the machinery, not of the code
        raise RuntimeError('TLAPS could not discharge every obligation of GVGeometryProofs:\n' + tail)
    ctx.cov['obligations'] = ctx.cov['discharged'] = proved
    ctx.cov['checker_cmd'] = 'tlapm -I /opt/veriftools/tla GVGeometryProofs.tla'
    ctx.cov['trusted_base'] = ['tlapm 1.6.0-pre with its SMT/Zenon/Isabelle back ends', 'TLC', 'the JSON projection of geometry values']
    ctx.log(f'TLAPS: {ctx.cov.get("discharged")}/{ctx.cov.get("obligations")} obligations in {time.time() - t0:.0f}s')
    # (ii) model checking
    cfg = write_cfg(os.path.join(ctx.work, 'MC_Geom.cfg'), constants={'B': 2 if ctx.quick else 3, 'MaxDim': 3 if ctx.quick else 4},
                    invariants=['InvGroup', 'InvRot', 'InvTransform', 'InvAreas', 'InvNextPosition', 'InvBoundary', 'InvGridRotation'])
    res = run_tlc('MC_Geom', cfg=cfg, workers=16, timeout=3000, check=False, heap='8g')
    if res.violated:
        ctx.violation(f'specification-level law {res.violated} fails in MC_Geom', {'kind': 'model', 'tail': res.raw[-3000:]})
    elif res.rc != 0:
        raise RuntimeError(res.raw[-3000:])
    ctx.add_tlc(res, 'MC_Geom')
    # (iii) the code
    recs = []
    B = 2
    small = range(-B, B + 1)
    pts = [[y, x] for y in small for x in small]
    areas_small = [[[y1, y2], [x1, x2]] for y1 in small for y2 in small if y1 <= y2 for x1 in small for x2 in small if x1 <= x2]
    k = 0
    for a_ori in ORIS:
        for b_ori in ORIS:
            for p in pts:
                q = pts[(k * 7) % len(pts)]
                area = areas_small[(k * 11) % len(areas_small)]
                t = {'p': p, 'o': a_ori}
                u = {'p': q, 'o': b_ori}
                recs += ops_for(a_ori, b_ori, p, q, area, t, u, Action(k % 8).name)
                k += 1
    for area in areas_small:
        for name, sel in (('area_positions', 'all'), ('area_border', 'border'), ('area_inside', 'inside')):
            recs.append({'kind': 'op', 'op': name, 'a': area, 'b': 0, 'res': [pj(p) for p in A(area).positions(sel)]})
        for o in ORIS:
            for p in pts[::3]:
                recs.append({'kind': 'op', 'op': 't_apply_area', 'a': {'p': p, 'o': o}, 'b': area, 'res': aj(Transform(P(p), OF[o]) * A(area))})
    for p in pts:
        for d in (1, 2, 3):
            b = get_manhattan_boundary(P(p), d)
            recs.append({'kind': 'op', 'op': 'manhattan_boundary', 'a': p, 'b': d, 'res': [pj(x) for x in b]})
            recs.append({'kind': 'seq', 'op': 'manhattan_boundary_order', 'a': p, 'b': d, 'res': [pj(x) for x in b]})
    for d in (0, -1):
        try:
            get_manhattan_boundary(Position(0, 0), d)
            oc = 'ok'
        except Exception as e:
            oc = proj.outcome_class(e)
        recs.append({'kind': 'raises', 'op': 'manhattan_boundary', 'outcome': oc, 'expect': 'ValueError'})
    for bad in ([[1, 0], [0, 0]], [[0, 0], [2, 1]]):
        try:
            A(bad)
            oc = 'ok'
        except Exception as e:
            oc = proj.outcome_class(e)
        recs.append({'kind': 'raises', 'op': 'area_ctor', 'outcome': oc, 'expect': 'ValueError'})
    # grid rotation on labelled grids (label kept in an extra field of the projected object)
    for h in range(1, (4 if ctx.quick else 5)):
        for w in range(1, (4 if ctx.quick else 5)):
            colors = list(Color)
            objs = [[(Exit if (y + x) % 2 else Key)(colors[(y * w + x) % 5]) for x in range(w)] for y in range(h)]
            # distinct labels through a (type, colour, position-dependent) pattern is not enough for big grids: use ids
            ids = {id(objs[y][x]): y * w + x for y in range(h) for x in range(w)}
            g = Grid(objs)
            lab = [[y * w + x for x in range(w)] for y in range(h)]
            for o in ORIS:
                rg = g * OF[o]
                recs.append({'kind': 'op', 'op': 'grid_rot', 'a': o, 'b': lab, 'res': [[ids[id(c)] for c in row] for row in rg.objects]})
                rg2 = OF[o] * g
                recs.append({'kind': 'op', 'op': 'grid_rot', 'a': o, 'b': lab, 'res': [[ids[id(c)] for c in row] for row in rg2.objects]})
                back = (g * OF[o]) * (-OF[o])
                recs.append({'kind': 'law', 'op': 'grid_rot_inverse', 'lhs': [[ids[id(c)] for c in row] for row in back.objects], 'rhs': lab})
    # operands with a history: the Agent's setters and the dynamics mutate a Transform / Grid in place between uses
    for k in range(200 if ctx.quick else 3000):
        p0 = [rng.randint(-5, 5), rng.randint(-5, 5)]
        p1 = [rng.randint(-5, 5), rng.randint(-5, 5)]
        o0, o1 = rng.choice(ORIS), rng.choice(ORIS)
        t = Transform(P(p0), OF[o0])
        (-t), (t * t), (t * P(p1))          # use it
        ag = Agent(P(p0), OF[o0])
        (-ag.transform), ag.front()
        if k % 2:
            t.position = P(p1); ag.position = P(p1)
            tv = {'p': p1, 'o': o0}
        else:
            t.orientation = OF[o1]; ag.orientation = OF[o1]
            tv = {'p': p0, 'o': o1}
        recs.append({'kind': 'op', 'op': 't_neg', 'a': tv, 'b': 0, 'res': tj(-t)})
        recs.append({'kind': 'op', 'op': 't_neg', 'a': tv, 'b': 0, 'res': tj(-ag.transform)})
        recs.append({'kind': 'op', 'op': 't_mul', 'a': tv, 'b': tv, 'res': tj(t * t)})
        recs.append({'kind': 'op', 'op': 'front', 'a': tv, 'b': 0, 'res': pj(ag.front())})
        recs.append({'kind': 'law', 'op': 't_inverse_after_mutation', 'lhs': tj(t * (-t)), 'rhs': tj(Transform(Position(0, 0), Orientation.F))})
    # random large coordinates (negative included)
    n = 5000 if ctx.quick else 100000
    lim = 2 ** 29
    for _ in range(n // 25):
        def rc():
            return rng.choice([rng.randint(-lim, lim), rng.randint(-1000, 1000), rng.randint(-3, 3)])
        p, q = [rc(), rc()], [rc(), rc()]
        ys = sorted([rc() // 2, rc() // 2])
        xs = sorted([rc() // 2, rc() // 2])
        area = [ys, xs]
        a_ori, b_ori = rng.choice(ORIS), rng.choice(ORIS)
        t = {'p': [p[0] // 2, p[1] // 2], 'o': a_ori}
        u = {'p': [q[0] // 2, q[1] // 2], 'o': b_ori}
        recs += ops_for(a_ori, b_ori, [p[0] // 2, p[1] // 2], [q[0] // 2, q[1] // 2], area, t, u, rng.choice(list(Action)).name)
    # coordinates beyond 64 bits, validated limb by limb
    for _ in range(300 if ctx.quick else 5000):
        def hc():
            def limb():
                return rng.choice([0, rng.randint(-2 ** 25 + 1, 2 ** 25 - 1), rng.randint(-3, 3), rng.choice([-1, 1]) * 2 ** rng.randint(0, 24)])
            return limb() + limb() * LIMB + limb() * LIMB ** 2
        p, q = [hc(), hc()], [hc(), hc()]
        a_ori, b_ori = rng.choice(ORIS), rng.choice(ORIS)
        recs += huge_ops_for(a_ori, b_ori, p, q, {'p': [hc(), hc()], 'o': a_ori}, {'p': [hc(), hc()], 'o': b_ori}, rng.choice(list(Action)).name)
    for idx, r in enumerate(recs):
        r['id'] = idx
        r.setdefault('op', '')
        r.setdefault('kind', 'op')
    d = os.path.join(ctx.work, 'geom')
    os.makedirs(d, exist_ok=True)
    ns = 16
    paths = []
    for s in range(ns):
        path = os.path.join(d, f'geom_{s:02d}.ndjson')
        with open(path, 'w') as f:
            for r in recs[s::ns]:
                f.write(json.dumps(r, separators=(',', ':')) + '\n')
        paths.append(path)
    results = run_many([dict(module='Trace_Geom', env={'TRACE_FILE': p}, workers=1, timeout=3000) for p in paths], parallel=16)
    done = 0
    for p, res in zip(paths, results):
        ctx.add_tlc(res, 'Trace_Geom')
        done += res.find('DONE')[0][1]
        for t in res.find('BAD'):
            r = recs[t[1]]
            if r['kind'] == 'seq':
                # the order in which the boundary cells are listed is documented but not part of the property
                ctx.drift(f"get_manhattan_boundary lists the cells of {r['a']} at distance {r['b']} in another order than the specification")
                continue
            ctx.violation(f"geometry operator {r['op']} ({r['kind']}) disagrees with the specification: {json.dumps({k: v for k, v in r.items() if k not in ('id',)})[:300]}",
                          {'kind': 'geom', 'record': r})
    if done != len(recs):
        raise RuntimeError(f'TLC validated {done} of {len(recs)} records')
    distinct = len(set(json.dumps([r['op'], r.get('a'), r.get('b')], sort_keys=True) for r in recs))
    ctx.add_counts(evaluations=len(recs), nontrivial=distinct, traces=len(recs))
    ctx.add_part('geometry records', records=len(recs), distinct=distinct)
    ctx.sample(recs[3])
    ctx.sample(recs[-1])
    for p in paths:
        os.remove(p)
    ctx.cov['exhaustive'] = True


if __name__ == '__main__':
    main(run, 'C18')
