"""C07 - observations are egocentric (invariant under rotating the whole world)."""
import random

from harness import boot  # noqa
from harness import obs, steps
from harness.checklib import main
from checks import obscommon as oc

PREFIX = ['C07']


def run(ctx, replay=None):
    if replay:
        return oc.replay_obs(ctx, replay, PREFIX)
    ctx.cov['rule'] = ('quadruples: a world and its three quarter-turn rotations (grid and pose, rotated by the harness, re-checked by TLC '
                       'against RotWorld of the specification) must give equal observations from the real code; '
                       'distinct_nontrivial = distinct observations with hidden and shown cells')
    oc.mc_obs(ctx, 3 if ctx.quick else 4, 2 if ctx.quick else 3, ['InvRotation', 'InvRotationGroup'])
    rng = random.Random(ctx.seed)
    jobs = []
    rid = 0
    # exhaustive small: labelled non-square grids, all poses, a few non-square areas, all deterministic functions
    areas = [[[-2, 0], [-1, 1]], [[-1, 0], [-2, 1]], [[-2, 0], [0, 1]], [[-1, 1], [-1, 2]], [[0, 0], [0, 0]], [[-6, 0], [-3, 3]]]
    for (h, w) in ([(2, 3), (3, 2)] if ctx.quick else [(1, 3), (2, 3), (3, 2), (3, 3), (3, 4), (4, 3)]):
        grid = obs.labelled_grid(h, w)
        for y in range(h):
            for x in range(w):
                for ori in steps.ORIS:
                    st = {'grid': grid, 'pos': [y, x], 'ori': ori, 'item': steps.HELD[1]}
                    for a in areas:
                        for fname in obs.DETERMINISTIC:
                            if not obs.area_valid_for(fname, a):
                                continue
                            for r in ['R', 'B', 'L']:
                                jobs.append(dict(kind='rot', rec_id=rid, fname=fname, area_json=a, st_json=st, r=r, want=['C07']))
                                rid += 1
    oc.run_obs_part(ctx, 'labelled', jobs, PREFIX)
    jobs = []
    n = 1000 if ctx.quick else 20000
    for k in range(n):
        h, w = rng.randint(1, 9), rng.randint(1, 9)
        st = obs.random_state(rng, h, w, p_opaque=0.3)
        fname = rng.choice(obs.DETERMINISTIC)
        a = [[-6, 0], [-3, 3]] if rng.random() < 0.3 else obs.random_area(rng, fname, maxext=3)
        for r in ['R', 'B', 'L']:
            jobs.append(dict(kind='rot', rec_id=len(jobs), fname=fname, area_json=a, st_json=st, r=r, want=['C07']))
        if k % 5 == 0:
            # the same view content through every deterministic function, most hiding first and then in reverse
            for fn2 in ['raytracing', 'partially_occluded', 'fully_transparent', 'partially_occluded', 'raytracing']:
                if obs.area_valid_for(fn2, a):
                    for r in ['R', 'L']:
                        jobs.append(dict(kind='rot', rec_id=len(jobs), fname=fn2, area_json=a, st_json=st, r=r, want=['C07']))
    oc.run_obs_part(ctx, 'random', jobs, PREFIX)


if __name__ == '__main__':
    main(run, 'C07')
