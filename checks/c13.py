"""C13 - reset functions always produce well-formed initial states."""
import itertools
import json
import os
import random

from harness import boot  # noqa
from harness import resets
from harness.checklib import main
from checks.stepcommon import sst

COLORSETS = [['RED', 'GREEN', 'BLUE', 'YELLOW'], ['RED', 'BLUE'], ['YELLOW'], [], ['NONE', 'RED', 'BLUE'], ['GREEN', 'YELLOW', 'RED']]


def param_grid(ctx, rng):
    """(f, p, small?) for all shapes / flags / layouts / counts / colour sets"""
    maxdim = 8 if ctx.quick else 13
    shapes = [(h, w) for h in range(1, maxdim + 1) for w in range(1, maxdim + 1)]
    out = []
    for (h, w) in shapes:
        small = h * w <= 20 if ctx.quick else h * w <= 25
        for ra in (False, True):
            for re in (False, True):
                out.append(('empty', {'shape': [h, w], 'random_agent': ra, 'random_exit': re}, small))
        for layout in itertools.product(range(0, 5), repeat=2):
            out.append(('rooms', {'shape': [h, w], 'layout': list(layout)}, False))
        for n in [-1, 0, 1, 2, 3, (h - 2) * (w - 2) - 3, (h - 2) * (w - 2) - 2, (h - 2) * (w - 2) - 1, 40]:
            for ra in (False, True):
                out.append(('dynamic_obstacles', {'shape': [h, w], 'num_obstacles': n, 'random_agent': ra}, small and n <= 2))
        out.append(('keydoor', {'shape': [h, w]}, small))
        for n in [-1, 0, 1, 2, 3, 5]:
            for t in (['Wall'] if ctx.quick else ['Wall', 'MovingObstacle']):
                out.append(('crossing', {'shape': [h, w], 'num_rivers': n, 'object_type': t}, h * w <= 35))
        out.append(('teleport', {'shape': [h, w]}, small))
        for cs in COLORSETS:
            out.append(('memory', {'shape': [h, w], 'colors': cs}, True))
        for layout in itertools.product(range(0, 4), repeat=2):
            for ci, cs in enumerate(COLORSETS[:5]):
                for (nb, ne) in [(1, 2), (0, 2), (1, 1), (2, 3), (1, 5), (3, 2), (30, 2)]:
                    # every layout gets the standard request; the variations are spread over shapes
                    standard = ci == 0 and (nb, ne) == (1, 2)
                    if not standard and ctx.quick and (h * 3 + w + nb + ne + len(cs) + layout[0] * 5 + layout[1]) % 7:
                        continue
                    out.append(('memory_rooms', {'shape': [h, w], 'layout': list(layout), 'colors': cs, 'num_beacons': nb, 'num_exits': ne}, False))
    return out


def design_part(ctx, rng):
    """the drawing primitives of design.py against GVDesign (conformance of the layer the reset functions are built on)"""
    from harness import proj, steps
    from harness.tlc import run_tlc
    from gym_gridverse import design
    from gym_gridverse.geometry import Area
    from gym_gridverse.grid import Grid
    from gym_gridverse.grid_object import Floor, Wall, Exit, MovingObstacle

    facts = {'Wall': Wall, 'Exit': Exit, 'MovingObstacle': MovingObstacle, 'Floor': Floor}
    recs = []
    for k in range(300 if ctx.quick else 5000):
        h, w = rng.randint(1, 8), rng.randint(1, 8)
        grid = Grid.from_shape((h, w))
        for _ in range(rng.randint(0, 4)):
            grid[rng.randrange(h), rng.randrange(w)] = rng.choice([Wall, Exit, MovingObstacle])()
        before = proj.grid_to_json(grid)
        oname = rng.choice(list(facts))
        ys = sorted(rng.sample(range(h), rng.randint(1, min(h, 3))))
        xs = sorted(rng.sample(range(w), rng.randint(1, min(w, 3))))
        y0, y1 = sorted([rng.randrange(h), rng.randrange(h)])
        x0, x1 = sorted([rng.randrange(w), rng.randrange(w)])
        area = [[y0, y1], [x0, x1]]
        op = rng.choice(['draw_wall_boundary', 'draw_room', 'draw_area', 'draw_room_grid', 'draw_line_horizontal', 'draw_line_vertical', 'draw_cartesian_product'])
        rec = {'id': k, 'op': op, 'grid': before, 'obj': steps.O(oname), 'area': area, 'fill': bool(rng.getrandbits(1)), 'ys': ys, 'xs': xs, 'y': ys[0], 'x': xs[0]}
        f = facts[oname]
        if op == 'draw_wall_boundary':
            pos = design.draw_wall_boundary(grid)
        elif op == 'draw_room':
            pos = design.draw_room(grid, Area(tuple(area[0]), tuple(area[1])), f)
        elif op == 'draw_area':
            pos = design.draw_area(grid, Area(tuple(area[0]), tuple(area[1])), f, fill=rec['fill'])
        elif op == 'draw_room_grid':
            pos = design.draw_room_grid(grid, ys, xs, f)
        elif op == 'draw_line_horizontal':
            pos = design.draw_line_horizontal(grid, ys[0], xs, f)
        elif op == 'draw_line_vertical':
            pos = design.draw_line_vertical(grid, ys, xs[0], f)
        else:
            pos = design.draw_cartesian_product(grid, ys, xs, f)
        rec['after'] = proj.grid_to_json(grid)
        rec['positions'] = [[int(p.y), int(p.x)] for p in pos]
        recs.append(rec)
    path = os.path.join(ctx.work, 'design.ndjson')
    with open(path, 'w') as fh:
        for r in recs:
            fh.write(json.dumps(r, separators=(',', ':')) + '\n')
    res = run_tlc('Trace_Design', env={'TRACE_FILE': path}, workers=1, timeout=1200)
    ctx.add_tlc(res, 'Trace_Design (drawing primitives of design.py)')
    if res.find('DONE')[0][1] != len(recs):
        raise RuntimeError('Trace_Design did not validate every record')
    for t in res.find('BAD'):
        r = recs[t[1]]
        ctx.drift(f"design.{r['op']} differs from GVDesign on a {len(r['grid'])}x{len(r['grid'][0])} grid (ys={r['ys']} xs={r['xs']} area={r['area']})")
    ctx.add_counts(evaluations=len(recs), traces=len(recs))
    ctx.add_part('drawing primitives (design.py) vs GVDesign', records=len(recs), mismatches=len(res.find('BAD')))
    os.remove(path)


def run(ctx, replay=None):
    rng = random.Random(ctx.seed)
    jobs = []
    if replay:
        art = json.load(open(replay))['replay']
        jobs.append(dict(rec_id=0, f=art['f'], p=art['p'], seed=art['seed'] if art['seed'] >= 0 else 0))
    else:
        ctx.cov['rule'] = ('every built-in reset function through the registry factory over shapes 1x1..8x8 (13x13 thorough), all flags, layouts (0..4)^2, counts, '
                           'colour sets x seeds, plus ALL outputs (EnumeratingRNG) for small shapes; TLC checks WellFormed_<f>(p, state) for returned states, '
                           'ValueError for refusals, MustAccept_<f>(p) for documented-valid parameters; distinct_nontrivial = distinct returned states')
        ctx.assumptions += ['a function may refuse parameters it could have honoured (not a violation) except those in MustAccept (its documented domain)']
        grid = param_grid(ctx, rng)
        seeds = 5 if ctx.quick else 30
        rid = 0
        n_enum = 0
        for (f, p, small) in grid:
            for s in range(seeds):
                jobs.append(dict(rec_id=rid, f=f, p=p, seed=rng.randrange(2 ** 31), drift=small and f != 'memory_rooms'))
                rid += 1
            if small and f != 'memory_rooms' and f != 'rooms':
                # ids of enumerated outputs live in their own range (TLC integers are 32-bit)
                jobs.append(dict(rec_id=rid, f=f, p=p, enumerate=True, drift=True, limit=2000 if ctx.quick else 20000,
                                 enum_base=10_000_000 + n_enum * 20_000))
                n_enum += 1
                rid += 1
    rng.shuffle(jobs)
    paths, counts = resets.run_jobs(os.path.join(ctx.work, 'reset'), jobs)
    bad, tot = resets.validate(paths)
    if tot['done'] != counts['records']:
        raise RuntimeError('TLC validated %d of %d records' % (tot['done'], counts['records']))
    ctx.add_tlc(tot, 'Trace_Reset')
    ctx.add_counts(evaluations=counts['records'], nontrivial=counts['distinct_states'], traces=counts['records'])
    ctx.add_part('reset records', records=counts['records'], returned=counts['returned'], refused=counts['records'] - counts['returned'])
    for b in bad:
        rec = resets.load_record(b['shard'], b['id'])
        mine = [c for c in b['clauses'] if c.startswith('C13')]
        if mine:
            what = f"{','.join(mine)}: {rec['f']}({json.dumps(rec['p'])}) seed={rec['seed']} -> {rec['outcome']}"
            if rec['outcome'] == 'ok':
                what += ' [' + sst(rec['st']) + ']'
            key = None
            ctx.violation(what, {'kind': 'reset', 'f': rec['f'], 'p': rec['p'], 'seed': rec['seed'], 'clauses': mine, 'state': rec['st']}, key=key)
        else:
            ctx.drift(f"{rec['f']}({json.dumps(rec['p'])}) returned a state outside the generative set Init_{rec['f']}: [{sst(rec['st'])}]")
    if not replay:
        design_part(ctx, rng)
    with open(paths[0]) as f:
        for line in f:
            rec = json.loads(line)
            if rec['outcome'] == 'ok':
                ctx.sample({'f': rec['f'], 'p': rec['p'], 'seed': rec['seed'], 'state': sst(rec['st'])})
                break
    for p in paths:
        os.remove(p)


if __name__ == '__main__':
    main(run, 'C13')
