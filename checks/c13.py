"""C13 - reset functions always produce well-formed initial states."""
import itertools
import json
import os
import random

from harness import boot  # noqa
from harness import resets
from harness.checklib import main
from checks.stepcommon import sst

COLORSETS = [['RED', 'GREEN', 'BLUE', 'YELLOW'], ['RED', 'BLUE'], ['YELLOW'], [], ['NONE', 'RED', 'BLUE'], ['GREEN', 'YELLOW', 'RED']]


def param_grid(ctx, rng):
    """(f, p, small?) for all shapes / flags / layouts / counts / colour sets"""
    maxdim = 8 if ctx.quick else 13
    shapes = [(h, w) for h in range(1, maxdim + 1) for w in range(1, maxdim + 1)]
    if ctx.quick:
        shapes = [s for s in shapes if s[0] <= 6 or s[1] <= 6 or s[0] == s[1]]
    out = []
    for (h, w) in shapes:
        small = h * w <= 20 if ctx.quick else h * w <= 25
        for ra in (False, True):
            for re in (False, True):
                out.append(('empty', {'shape': [h, w], 'random_agent': ra, 'random_exit': re}, small))
        for layout in itertools.product(range(0, 5), repeat=2):
            if ctx.quick and (h + w + layout[0] + layout[1]) % 2:
                continue
            out.append(('rooms', {'shape': [h, w], 'layout': list(layout)}, False))
        for n in [-1, 0, 1, 2, 3, (h - 2) * (w - 2) - 3, (h - 2) * (w - 2) - 2, (h - 2) * (w - 2) - 1, 40]:
            for ra in (False, True):
                out.append(('dynamic_obstacles', {'shape': [h, w], 'num_obstacles': n, 'random_agent': ra}, small and n <= 2))
        out.append(('keydoor', {'shape': [h, w]}, small))
        for n in [-1, 0, 1, 2, 3, 5]:
            for t in (['Wall'] if ctx.quick else ['Wall', 'MovingObstacle']):
                out.append(('crossing', {'shape': [h, w], 'num_rivers': n, 'object_type': t}, h * w <= 35))
        out.append(('teleport', {'shape': [h, w]}, small))
        for cs in COLORSETS:
            out.append(('memory', {'shape': [h, w], 'colors': cs}, True))
        for layout in [(1, 1), (2, 2), (2, 1), (3, 3), (0, 1), (1, 3)]:
            for cs in COLORSETS[:5]:
                for (nb, ne) in [(1, 2), (0, 2), (1, 1), (2, 3), (1, 5), (3, 2), (30, 2)]:
                    if ctx.quick and (h * 3 + w + nb + ne + len(cs)) % 3:
                        continue
                    out.append(('memory_rooms', {'shape': [h, w], 'layout': list(layout), 'colors': cs, 'num_beacons': nb, 'num_exits': ne}, False))
    return out


def run(ctx, replay=None):
    rng = random.Random(ctx.seed)
    jobs = []
    if replay:
        art = json.load(open(replay))['replay']
        jobs.append(dict(rec_id=0, f=art['f'], p=art['p'], seed=art['seed'] if art['seed'] >= 0 else 0))
    else:
        ctx.cov['rule'] = ('every built-in reset function through the registry factory over shapes 1x1..8x8 (13x13 thorough), all flags, layouts (0..4)^2, counts, '
                           'colour sets x seeds, plus ALL outputs (EnumeratingRNG) for small shapes; TLC checks WellFormed_<f>(p, state) for returned states, '
                           'ValueError for refusals, MustAccept_<f>(p) for documented-valid parameters; distinct_nontrivial = distinct returned states')
        ctx.assumptions += ['a function may refuse parameters it could have honoured (not a violation) except those in MustAccept (its documented domain)']
        grid = param_grid(ctx, rng)
        seeds = 3 if ctx.quick else 30
        rid = 0
        for (f, p, small) in grid:
            for s in range(seeds):
                jobs.append(dict(rec_id=rid, f=f, p=p, seed=rng.randrange(2 ** 31), drift=small and f != 'memory_rooms'))
                rid += 1
            if small and f != 'memory_rooms' and f != 'rooms':
                jobs.append(dict(rec_id=rid, f=f, p=p, enumerate=True, drift=True, limit=2000 if ctx.quick else 20000))
                rid += 1
    rng.shuffle(jobs)
    paths, counts = resets.run_jobs(os.path.join(ctx.work, 'reset'), jobs)
    bad, tot = resets.validate(paths)
    if tot['done'] != counts['records']:
        raise RuntimeError('TLC validated %d of %d records' % (tot['done'], counts['records']))
    ctx.add_tlc(tot, 'Trace_Reset')
    ctx.add_counts(evaluations=counts['records'], nontrivial=counts['distinct_states'], traces=counts['records'])
    ctx.add_part('reset records', records=counts['records'], returned=counts['returned'], refused=counts['records'] - counts['returned'])
    for b in bad:
        rec = resets.load_record(b['shard'], b['id'])
        mine = [c for c in b['clauses'] if c.startswith('C13')]
        if mine:
            what = f"{','.join(mine)}: {rec['f']}({json.dumps(rec['p'])}) seed={rec['seed']} -> {rec['outcome']}"
            if rec['outcome'] == 'ok':
                what += ' [' + sst(rec['st']) + ']'
            key = None
            ctx.violation(what, {'kind': 'reset', 'f': rec['f'], 'p': rec['p'], 'seed': rec['seed'], 'clauses': mine, 'state': rec['st']}, key=key)
        else:
            ctx.drift(f"{rec['f']}({json.dumps(rec['p'])}) returned a state outside the generative set Init_{rec['f']}: [{sst(rec['st'])}]")
    with open(paths[0]) as f:
        for line in f:
            rec = json.loads(line)
            if rec['outcome'] == 'ok':
                ctx.sample({'f': rec['f'], 'p': rec['p'], 'seed': rec['seed'], 'state': sst(rec['st'])})
                break
    for p in paths:
        os.remove(p)


if __name__ == '__main__':
    main(run, 'C13')
