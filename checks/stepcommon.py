"""Shared engine of the checks that validate step records (C01, C08-C12)."""
from __future__ import annotations

import json
import os
import random
from typing import Dict, List

from harness import steps
from harness.tlc import run_tlc


def short(o):
    return (o['t'][:4] + (str(o['s']) if o['t'] == 'Door' else '') + (o['c'][0] if o['c'] != 'NONE' else '')
            + ('(' + short(o['in'][0]) + ')' if o['in'] else ''))


def sst(s):
    return (' / '.join(' '.join(short(o) for o in row) for row in s['grid'])
            + f" @{s['pos']}{s['ori']} held={short(s['item'])}")


def cell_jobs(h, w, start_id=0, stride=1):
    n = steps.cell_family_size(h, w)
    return [dict(rec_id=start_id + i, st_json=steps.cell_family_member(h, w, i), fam='cell', fi=i, fsize=n)
            for i in range(0, n, stride)]


def local_jobs(h, w, k, start_id=0, alphabet=None, helds=None):
    return [dict(rec_id=start_id + i, st_json=s, fam='local', k=k)
            for i, s in enumerate(steps.local_family(h, w, k, alphabet, helds))]


def run_step_part(ctx, name, jobs, common, prefixes, exhaustive_family=None, nshards=16, key_fn=None, drift=False):
    """generate records with the real code, validate with TLC, file violations.

    prefixes: clause prefixes that decide this property (others are ignored,
    DRIFT.* is logged as drift)."""
    workdir = os.path.join(ctx.work, name)
    common = dict(common)
    common.setdefault('want', sorted(set(p.split('.')[0] for p in prefixes)) + (['DRIFT'] if drift else []))
    paths, counts = steps.run_jobs(workdir, jobs, common, nshards=nshards, tag=name)
    bad, tot = steps.validate(paths)
    if tot['done'] != counts['records']:
        raise RuntimeError(f'{name}: TLC validated {tot["done"]} of {counts["records"]} records')
    ctx.add_tlc(tot, f'Trace_Step on {name}')
    # a run in which (almost) every call raised cannot judge anything but totality: that is a failure of the machinery
    # (or of the code) that must not pass silently for the properties that do not look at raises
    if counts['acts'] and counts['raises'] > 0.5 * counts['acts'] and not any(p.startswith('C01') for p in prefixes):
        raise RuntimeError(f'{name}: {counts["raises"]} of {counts["acts"]} calls raised; nothing to judge')
    ctx.add_counts(evaluations=counts['acts'], nontrivial=counts['nontrivial'], traces=counts['records'])
    n_viol = 0
    fam_fail = False
    for b in bad:
        mine = [c for c in b['clauses'] if any(c.startswith(p) for p in prefixes)]
        if 'C01.family' in b['clauses'] or 'C01.pre' in b['clauses']:
            fam_fail = True
        drift = [c for c in b['clauses'] if c.startswith('DRIFT')]
        if mine:
            rec = steps.load_record(b['shard'], b['id'])
            act = next((a for a in rec['acts'] if a['a'] == b['a']), None)
            what = f"{name}: {','.join(mine)} on [{sst(rec['st'])}] action {b['a']}"
            if act is not None:
                what += ' -> ' + (act['outcome'] if act['outcome'] != 'ok' else ('unchanged' if act.get('same') else '; '.join(sst(s) for s in act['support'][:3])))
            rp = {'kind': 'step', 'record': {k: rec[k] for k in ('space', 'comps', 'rew', 'term', 'st', 'fam', 'fi', 'fsize', 'k', 'chain') if k in rec},
                  'action': b['a'], 'clauses': mine, 'observed': act, 'via': common.get('via', 'gridworld')}
            ctx.violation(what, rp, key=key_fn(rec, b, mine) if key_fn else None)
            n_viol += 1
        elif drift:
            rec = steps.load_record(b['shard'], b['id'])
            ctx.drift(f"{name}: code outcome differs from operational model on [{sst(rec['st'])}] action {b['a']}")
    if fam_fail:
        raise RuntimeError(f'{name}: harness family does not match the specification family')
    part = dict(records=counts['records'], transitions_checked=counts['acts'], nontrivial=counts['nontrivial'],
                raises=counts['raises'], violations=n_viol, comps=[c['name'] for c in common['comps']])
    if exhaustive_family:
        part['exhaustive_family'] = exhaustive_family
    ctx.add_part(name, **part)
    if jobs:
        with open(paths[0]) as f:
            rec = json.loads(f.readline())
        a = rec['acts'][min(len(rec['acts']) - 1, 0)]
        ctx.sample({'part': name, 'state': sst(rec['st']), 'action': a['a'], 'outcome': a['outcome'],
                    'next': 'unchanged' if a.get('same') else [sst(s) for s in a['support'][:2]]})
    for p in paths:
        os.remove(p)
    return n_viol


def live_chain_part(ctx, prefixes, n, seed_offset=0, length=6):
    """walks on live state objects over mixed small worlds (boxes that release obstacles / keys / telepods, doors, keys,
    obstacles, telepod pairs): every state of a walk is questioned as the object the previous call returned, so whatever
    the code memoised on it (and fast_copy carried along) is in play; every record is judged by the same rules"""
    rng = random.Random(ctx.seed * 977 + seed_offset)
    O = steps.O
    jobs = []
    for i in range(n):
        h, w = rng.choice([(3, 3), (3, 4), (4, 4), (4, 5), (5, 5)])
        pool = [O('Box', 0, 'NONE', O('MovingObstacle')), O('Box', 0, 'NONE', O('Key', 0, 'RED')), O('Box', 0, 'NONE', O('Telepod', 0, 'RED')),
                O('MovingObstacle'), O('Door', 1, 'RED'), O('Door', 2, 'RED'), O('Key', 0, 'RED'), O('Wall'), O('Telepod', 0, 'RED'), O('Telepod', 0, 'RED')]
        grid = [[steps.FLOOR for _ in range(w)] for _ in range(h)]
        cells = [(y, x) for y in range(h) for x in range(w)]
        rng.shuffle(cells)
        objs = rng.sample(pool, rng.randint(2, 5))
        for (y, x), o in zip(cells, objs):
            grid[y][x] = o
        pos, ori = list(cells[len(objs)]), rng.choice(steps.ORIS)
        # half of the walks start in front of an actuable / holdable object
        targets = [(y, x) for (y, x), o in zip(cells, objs) if o['t'] in ('Box', 'Door', 'Key')]
        if targets and rng.random() < 0.6:
            ty, tx = rng.choice(targets)
            for o_, (dy, dx) in zip(['F', 'R', 'B', 'L'], [(-1, 0), (0, 1), (1, 0), (0, -1)]):
                ay, ax = ty - dy, tx - dx
                if 0 <= ay < h and 0 <= ax < w and grid[ay][ax]['t'] == 'Floor':
                    pos, ori = [ay, ax], o_
                    break
        acts = []
        for t in range(length):
            u = rng.random()
            acts.append('ACTUATE' if u < 0.3 else 'PICK_N_DROP' if u < 0.42 else rng.choice(['TURN_LEFT', 'TURN_RIGHT', 'MOVE_FORWARD', 'MOVE_BACKWARD', 'MOVE_LEFT', 'MOVE_RIGHT']))
        if rng.random() < 0.5:
            acts[:3] = [rng.choice(['TURN_LEFT', 'TURN_RIGHT']), 'ACTUATE', 'ACTUATE'] if rng.random() < 0.5 else ['PICK_N_DROP', 'ACTUATE', rng.choice(['TURN_LEFT', 'MOVE_BACKWARD'])]
            if acts[0].startswith('TURN'):
                # turn away and back so that the dynamics has run once before the object in front changes
                acts[:4] = [acts[0], 'TURN_RIGHT' if acts[0] == 'TURN_LEFT' else 'TURN_LEFT', 'ACTUATE', rng.choice(['TURN_LEFT', 'MOVE_BACKWARD', 'ACTUATE'])]
        st = {'grid': grid, 'pos': pos, 'ori': ori, 'item': rng.choice(steps.HELD[:2])}
        jobs.append(dict(rec_id=i, st_json=st, walk={'actions': acts, 'seeds': [rng.randrange(2 ** 31) for _ in acts]},
                         space=steps.family_space(h, w)))
    return run_step_part(ctx, 'live_walks', jobs, dict(comps=steps.COMPOSITIONS['all'], via='direct', enum_limit=600), prefixes)


def replay_step(ctx, path):
    """re-run a stored step violation through the current code and TLC"""
    with open(path) as f:
        art = json.load(f)
    rp = art['replay']
    rec = rp['record']
    job = dict(rec_id=0, st_json=rec['st'], fam=rec.get('fam', ''), fi=rec.get('fi', -1),
               fsize=rec.get('fsize', -1), k=rec.get('k', -1))
    if rec.get('chain'):   # a state reached on live objects: walk there again
        ch = rec['chain']
        job = dict(rec_id=0, st_json=ch['start'], walk={'actions': ch['actions'] + [rp['action']], 'seeds': ch['seeds'] + [0]})
    common = dict(comps=rec['comps'], space=rec['space'], rew=rec['rew'][0] if rec['rew'] else None,
                  term=rec['term'][0] if rec['term'] else None, actions=[rp['action']], via=rp.get('via', 'gridworld'))
    prefixes = sorted(set(c.split('.')[0] for c in rp['clauses']))
    n = run_step_part(ctx, 'replay', [job], common, prefixes, nshards=1)
    ctx.log('replay reproduces the violation' if n else 'replay: no violation on the current tree')


MC_STEP_INVARIANTS = {
    'C01': ['InvShaped', 'InvClosure'],
    'C08': ['InvShaped', 'InvKinematics', 'InvAgentOK', 'InvTurnsCompose'],
    'C09': ['InvShaped', 'InvConservation'],
    'C10': ['InvShaped', 'InvDoor'],
    'C11': ['InvObstacle', 'InvObstacleComplete', 'InvTeleport', 'InvTeleportComplete'],
    'C12': ['InvExitAgreement', 'InvBumpAgreement'],
}


def mc_step(ctx, name, shapes, max_nonfloor, alpha, held, compnames, invariants, nshards=15, workers=1):
    """model-check the specification's components against the declarative rules (MC_Step)"""
    from harness.tlc import run_many, write_cfg, tla_set

    jobs = []
    for sh in range(nshards):
        cfg = write_cfg(
            os.path.join(ctx.work, f'MC_Step_{name}_{sh}.cfg'),
            constants={
                'Shapes': ('<-', shapes), 'MaxNonFloor': ('<-', 'Unbounded') if max_nonfloor is None else max_nonfloor,
                'AlphaSub': ('<-', alpha), 'HeldSub': ('<-', held), 'CompNames': tla_set(compnames),
                'ShardIdx': sh, 'NShards': nshards,
            },
            invariants=invariants,
        )
        jobs.append(dict(module='MC_Step', cfg=cfg, workers=workers, timeout=3000, check=False))
    results = run_many(jobs, parallel=16)
    gen = dis = 0
    for res in results:
        if res.violated:
            ctx.violation(f'specification-level rule {res.violated} fails in MC_Step[{name}] (model inconsistency)',
                          {'kind': 'model', 'module': 'MC_Step', 'invariant': res.violated, 'tail': res.raw[-3000:]})
        elif res.rc != 0:
            raise RuntimeError('TLC failed on MC_Step:\n' + res.raw[-3000:])
        gen += res.generated
        dis += res.distinct
    ctx.add_tlc({'generated': gen, 'distinct': dis}, f'MC_Step[{name}] shapes={shapes} alpha={alpha} comps={compnames} invariants={invariants}')
    ctx.log(f'MC_Step[{name}]: {dis} distinct states, {gen} generated')
    return dis


def history_part(ctx, prefixes, files, nsteps, seeds):
    """long guided histories of shipped configurations validated step by step, with history variables, by Trace_History"""
    from harness import boot, history

    items = []
    for fn in files:
        for s in seeds:
            items.append((fn, os.path.join(boot.REPO, 'yaml', fn), ctx.seed * 7 + s))
    paths, stats = history.run_histories(os.path.join(ctx.work, 'hist'), items, nsteps)
    n_viol = 0
    for (name, src, seed), (p, res, bad) in zip(items, history.validate(paths)):
        ctx.add_tlc(res, f'Trace_History {name} seed {seed}')
        for rid, clauses in bad:
            mine = [c for c in clauses if any(c.startswith(x) for x in prefixes) or c == 'continuity']
            if mine:
                n_viol += 1
                rec = None
                with open(p) as f:
                    for line in f:
                        r = json.loads(line)
                        if r['id'] == rid:
                            rec = r
                            break
                ctx.violation(f"history of {name} (seed {seed}), step {rid}: {','.join(mine)} on [{sst(rec['st'])}] {rec['a']} -> [{sst(rec['next'])}]",
                              {'kind': 'history', 'config': name, 'seed': seed, 'nsteps': nsteps, 'step': rid, 'clauses': mine})
            elif any(c.startswith('DRIFT') for c in clauses):
                ctx.drift(f'history of {name} (seed {seed}), step {rid}: step differs from the operational model')
        os.remove(p)
    steps_total = sum(s[0] for s in stats)
    ctx.add_counts(evaluations=steps_total, nontrivial=sum(s[3] for s in stats), traces=len(items))
    ctx.add_part('long histories (Trace_History)', files=files, seeds=len(seeds), steps=steps_total,
                 episodes=sum(s[1] for s in stats), actuations_that_changed_something=sum(s[2] for s in stats), violations=n_viol)
    return n_viol


def apalache_lemmas(ctx, lemmas, modules=("MC_GVSym_5x5",), timeout=400, link=True):
    """discharge step lemmas of GVSym for EVERY content of a grid of fixed shape with Apalache
    (IndInv /\\ Next => lemma', --length=1 from --init=Init where Init == IndInv), and tie GVSym to the
    main specification with TLC (MC_SymLink).  A time-out is reported in the evidence, never as a violation."""
    import shutil
    import subprocess
    import tempfile
    import concurrent.futures as cf
    from harness.tlc import SPEC, run_tlc, write_cfg

    def one(module, lemma):
        out = tempfile.mkdtemp(prefix='apa_')
        try:
            p = subprocess.run(['apalache-mc', 'check', '--init=Init', f'--inv={lemma}', '--length=1', f'--out-dir={out}', f'{module}.tla'],
                               cwd=SPEC, capture_output=True, text=True, timeout=timeout)
            txt = p.stdout + p.stderr
            if 'The outcome is: NoError' in txt:
                return 'proved'
            if 'The outcome is: Error' in txt or 'Checker has found an error' in txt:
                return 'refuted' if 'outcome is: Error' in txt else 'tool-error: ' + txt[-400:]
            return 'unknown: ' + txt[-300:]
        except subprocess.TimeoutExpired:
            return 'timeout'
        finally:
            shutil.rmtree(out, ignore_errors=True)
            shutil.rmtree(os.path.join(SPEC, '_apalache-out'), ignore_errors=True)

    jobs = [(m, l) for m in modules for l in list(lemmas) + ['FalseLemma']]
    with cf.ThreadPoolExecutor(max_workers=6) as ex:
        results = list(ex.map(lambda j: one(*j), jobs))
    report = []
    for (m, l), r in zip(jobs, results):
        report.append({'module': m, 'lemma': l, 'result': r})
        if l == 'FalseLemma':
            if r not in ('refuted', 'timeout'):
                raise RuntimeError(f'Apalache did not refute the deliberately false lemma on {m}: {r}')
        elif r == 'refuted':
            ctx.violation(f'Apalache refutes the step lemma {l} on {m} (specification-level: GVSym)', {'kind': 'apalache', 'module': m, 'lemma': l})
        elif r.startswith('tool-error') or r.startswith('unknown'):
            raise RuntimeError(f'Apalache failed on {m} {l}: {r}')
    ctx.cov.setdefault('apalache', []).extend(report)
    ctx.log('Apalache: ' + ', '.join(f"{x['lemma']}@{x['module'][9:]}={x['result']}" for x in report))
    if link:
        for (h, w) in [(1, 2), (2, 1)]:
            cfg = write_cfg(os.path.join(ctx.work, f'MC_SymLink_{h}x{w}.cfg'), constants={'H': h, 'W': w}, invariants=['Link', 'SymInv'], constraints=['Depth1'])
            res = run_tlc('MC_SymLink', cfg=cfg, workers=8, timeout=1200, check=False, heap='6g')
            if res.violated:
                ctx.violation(f'GVSym and the main specification disagree (MC_SymLink {h}x{w}: {res.violated})', {'kind': 'model', 'tail': res.raw[-2000:]})
            elif res.rc != 0:
                raise RuntimeError(res.raw[-2000:])
            ctx.add_tlc(res, f'MC_SymLink {h}x{w}: GVSym!Next commutes with Step(key-door composition) under flattening')
    return report


def mc_reach(ctx, invariants):
    """complete reachable graphs of small configurations from all initial states (MC_Reach) with history invariants"""
    from harness.tlc import run_many, write_cfg
    C = steps.C
    basic = [C('move_agent'), C('turn_agent')]
    term_exit = C('reach_exit')
    term_obst = C('reduce_any', terminating_functions=[C('reach_exit'), C('bump_moving_obstacle'), C('bump_into_wall')])
    allc = ['RED', 'GREEN', 'BLUE', 'YELLOW']
    cfgs = [
        ('empty', {'shape': [4, 4], 'random_agent': True, 'random_exit': False}, basic, term_exit),
        ('keydoor', {'shape': [5, 5]}, steps.COMPOSITIONS['keydoor'], term_exit),
        ('keydoor', {'shape': [4, 6]}, steps.COMPOSITIONS['keydoor'], term_exit),
        ('crossing', {'shape': [5, 5], 'num_rivers': 1, 'object_type': 'Wall'}, basic, term_exit),
        ('teleport', {'shape': [5, 5]}, steps.COMPOSITIONS['teleport'], term_exit),
        ('dynamic_obstacles', {'shape': [5, 5], 'num_obstacles': 1, 'random_agent': False}, steps.COMPOSITIONS['obstacles'], term_obst),
        ('rooms', {'shape': [5, 5], 'layout': [2, 2]}, basic, term_exit),
        ('memory', {'shape': [5, 5], 'colors': allc}, basic, term_exit),
    ]
    if not ctx.quick:
        cfgs += [
            ('keydoor', {'shape': [6, 6]}, steps.COMPOSITIONS['keydoor'], term_exit),
            ('keydoor', {'shape': [5, 7]}, steps.COMPOSITIONS['keydoor'], term_exit),
            ('rooms', {'shape': [7, 7], 'layout': [2, 2]}, basic, term_exit),
            ('crossing', {'shape': [7, 7], 'num_rivers': 2, 'object_type': 'Wall'}, basic, term_exit),
            ('dynamic_obstacles', {'shape': [5, 5], 'num_obstacles': 2, 'random_agent': True}, steps.COMPOSITIONS['obstacles'], term_obst),
            ('teleport', {'shape': [6, 6]}, steps.COMPOSITIONS['teleport'], term_exit),
            ('memory_rooms', {'shape': [5, 5], 'layout': [2, 2], 'colors': allc, 'num_beacons': 1, 'num_exits': 2}, basic, term_exit),
        ]
    cfg = write_cfg(os.path.join(ctx.work, 'MC_Reach.cfg'), invariants=invariants)
    jobs = []
    for k, (f, p, comps, term) in enumerate(cfgs):
        pf = os.path.join(ctx.work, f'reach_{k}.json')
        with open(pf, 'w') as fh:
            json.dump({'f': f, 'p': p, 'comps': comps, 'term': term, 'types': steps.FAMILY_TYPES, 'colors': steps.ALL_COLORS}, fh)
        jobs.append(dict(module='MC_Reach', cfg=cfg, env={'PARAM_FILE': pf}, workers=4, timeout=3000, check=False, heap='6g'))
    total = 0
    for (f, p, comps, term), res in zip(cfgs, run_many(jobs, parallel=4)):
        label = f'{f}{json.dumps(p)}'
        if res.violated:
            ctx.violation(f'history invariant {res.violated} fails in the reachable graph of {label} (specification-level)',
                          {'kind': 'model', 'module': 'MC_Reach', 'invariant': res.violated, 'config': label, 'tail': res.raw[-2500:]})
        elif res.rc != 0:
            raise RuntimeError(f'MC_Reach failed on {label}:\n' + res.raw[-2500:])
        ctx.add_tlc(res, f'MC_Reach {label} invariants={invariants}')
        total += res.distinct
    ctx.log(f'MC_Reach: {len(cfgs)} complete reachable graphs, {total} states')
    return total


def random_big_part(ctx, prefixes, n, seed_offset=0):
    """random larger states (up to 13x13, any mix of objects, several obstacles / telepods / boxes / doors), random
    compositions of the rule-shaped kind, seeded outcomes: the declarative rules on grids far beyond the exhaustive scopes"""
    import random as _random
    from harness import obs as obsh
    rng = _random.Random(ctx.seed * 977 + seed_offset)
    O = steps.O
    jobs = []
    shaped = ['basic', 'keydoor', 'obstacles', 'teleport', 'all', 'all2', 'nested']
    for i in range(n):
        h, w = rng.randint(2, 13), rng.randint(2, 13)
        st = obsh.random_state(rng, h, w, p_opaque=0.2)
        cells = [(y, x) for y in range(h) for x in range(w)]
        for (y, x) in rng.sample(cells, min(len(cells), rng.randint(0, 6))):
            st['grid'][y][x] = rng.choice([O('MovingObstacle'), O('Telepod', 0, 'RED'), O('Telepod', 0, 'BLUE'), O('Door', 1, 'RED'), O('Door', 2, 'BLUE'),
                                           O('Key', 0, 'BLUE'), O('Box', 0, 'NONE', O('Key', 0, 'RED')), O('Box', 0, 'NONE', O('Box', 0, 'NONE', O('Floor')))])
        # put something interesting in front of the agent half of the time
        dy, dx = {'F': (-1, 0), 'R': (0, 1), 'B': (1, 0), 'L': (0, -1)}[st['ori']]
        fy, fx = st['pos'][0] + dy, st['pos'][1] + dx
        if 0 <= fy < h and 0 <= fx < w and rng.random() < 0.5:
            st['grid'][fy][fx] = rng.choice([O('Door', 1, 'RED'), O('Door', 2, 'RED'), O('Key', 0, 'RED'), O('Box', 0, 'NONE', O('Wall')), steps.FLOOR, O('Wall')])
        st['item'] = rng.choice(steps.HELD + [O('Door', 0, 'RED')])
        # the agent must not stand on a blocking cell for the kinematics rule to be about a sensible state
        jobs.append(dict(rec_id=i, st_json=st, space=steps.family_space(h, w), comps=steps.COMPOSITIONS[rng.choice(shaped)],
                         seeds=[rng.randrange(2 ** 31) for _ in range(2)]))
    return run_step_part(ctx, 'random_big', jobs, dict(comps=steps.T_ALL, via='direct'), prefixes)
