"""C06 - hidden cells carry no information (non-interference, monotonicity, chain connectivity)."""
import json
import os
import random

from harness import boot  # noqa
from harness import obs, steps
from harness.checklib import main
from harness.tlc import run_many, write_cfg
from checks import obscommon as oc

from gym_gridverse.envs import visibility_functions as visibility_fs
from gym_gridverse.geometry import Position
from gym_gridverse.grid import Grid
from gym_gridverse.grid_object import Floor, Wall

PREFIX = ['C06']
INVS = ['InvSelfVisible', 'InvChainConnected', 'InvMonotone', 'InvNonInterfering', 'InvUnobstructed']


def code_masks(fname, h, w, py, px, params=None):
    """the implementation's visibility mask for every opacity pattern of an h x w view"""
    kw = {} if params is None else {'absolute_counts': params['abs'], 'threshold': params['tn'] / params['td']}
    f = visibility_fs.factory(fname, **kw)
    n = h * w
    out = []
    pos = Position(py, px)
    for m in range(2 ** n):
        grid = Grid([[Wall() if (m >> (y * w + x)) & 1 else Floor() for x in range(w)] for y in range(h)])
        vis = f(grid, pos)
        v = 0
        for y in range(h):
            for x in range(w):
                if vis[y, x]:
                    v |= 1 << (y * w + x)
        out.append(v)
    return out


def _table_worker(args):
    path, fname, h, w, py, px = args
    key, fan = obs.fan_for(h, w, py, px) if fname == 'raytracing' else ('', [])
    masks = code_masks(fname, h, w, py, px)
    nontrivial = len(set(masks))
    with open(path, 'w') as f:
        json.dump({'h': h, 'w': w, 'py': py, 'px': px, 'fname': fname, 'fan': fan, 'masks': masks}, f, separators=(',', ':'))
    return nontrivial


def run_tables(ctx, views):
    import multiprocessing as mp

    d = os.path.join(ctx.work, 'tables')
    os.makedirs(d, exist_ok=True)
    args = []
    for (fname, h, w, py, px) in views:
        args.append((os.path.join(d, f'{fname}_{h}x{w}_{py}_{px}.json'), fname, h, w, py, px))
    with mp.Pool(16) as pool:
        nontrivial = pool.map(_table_worker, args)
    cfg_code = write_cfg(os.path.join(ctx.work, 'Vis_code.cfg'), constants={'Source': '"code"'}, invariants=INVS + ['InvFanOK'])
    cfg_drift = write_cfg(os.path.join(ctx.work, 'Vis_drift.cfg'), constants={'Source': '"code"'}, invariants=['InvAgreesWithSpec'])
    cfg_spec = write_cfg(os.path.join(ctx.work, 'Vis_spec.cfg'), constants={'Source': '"spec"'}, invariants=INVS)
    jobs = []
    for a in args:
        big = a[2] * a[3] >= 14
        for cfg in (cfg_code, cfg_drift, cfg_spec):
            jobs.append(dict(module='VisTable', cfg=cfg, env={'TRACE_FILE': a[0]}, workers=4 if big else 1, timeout=3000, check=False, heap='4g'))
    results = run_many(jobs, parallel=16)
    k = 0
    for a, nt in zip(args, nontrivial):
        fname, h, w, py, px = a[1:]
        for kind in ('code', 'drift', 'spec'):
            res = results[k]
            k += 1
            label = f'{fname} view {h}x{w} agent at ({py},{px})'
            if res.violated:
                if kind == 'drift':
                    ctx.drift(f'visibility masks of the code differ from the operational model: {label}')
                elif kind == 'spec':
                    ctx.violation(f'specification-level {res.violated} fails for {label} (model inconsistency)',
                                  {'kind': 'model', 'module': 'VisTable', 'invariant': res.violated, 'view': a[1:], 'tail': res.raw[-2500:]})
                else:
                    ctx.violation(f'C06 {res.violated} fails on the masks of the real {label}',
                                  {'kind': 'vistable', 'view': list(a[1:]), 'invariant': res.violated, 'tail': res.raw[-2500:]})
            elif res.rc != 0:
                raise RuntimeError('TLC failed on VisTable:\n' + res.raw[-3000:])
            ctx.add_tlc(res, f'VisTable[{kind}] {label}')
            if kind == 'code':
                ctx.add_counts(evaluations=2 ** (h * w), nontrivial=nt, traces=1)
    ctx.add_part('all opacity patterns of small views', views=[list(a[1:]) for a in args])
    threshold_tables(ctx)
    ctx.sample({'view': list(args[0][1:]), 'patterns': 2 ** (args[0][2] * args[0][3]),
                'meaning': 'mask of the real visibility function for every opacity pattern, checked against SelfVisible, ChainConnected, Monotone, NonInterfering'})
    for a in args:
        os.remove(a[0])


def threshold_tables(ctx):
    """the thresholded variants of raytracing (absolute_counts / threshold parameters) against RaytracingThr:
    conformance beyond the listed property (C06 speaks about the default function), so mismatches are drift"""
    d = os.path.join(ctx.work, 'thr')
    os.makedirs(d, exist_ok=True)
    views = [(3, 3, 2, 1), (2, 3, 1, 0), (4, 3, 3, 1)] if ctx.quick else [(3, 3, 2, 1), (2, 3, 1, 0), (4, 3, 3, 1), (3, 4, 2, 2), (3, 5, 2, 2)]
    plist = [{'abs': True, 'tn': 2, 'td': 1}, {'abs': True, 'tn': 3, 'td': 1}, {'abs': False, 'tn': 1, 'td': 2}, {'abs': False, 'tn': 1, 'td': 1}, {'abs': False, 'tn': 1, 'td': 4}]
    cfg = write_cfg(os.path.join(ctx.work, 'Vis_thr.cfg'), constants={'Source': '"code"'}, invariants=['InvAgreesWithSpec', 'InvFanOK'])
    jobs, labels = [], []
    for (h, w, py, px) in views:
        key, fan = obs.fan_for(h, w, py, px)
        for params in plist:
            path = os.path.join(d, f'thr_{h}x{w}_{py}_{px}_{params["abs"]}_{params["tn"]}_{params["td"]}.json')
            with open(path, 'w') as f:
                json.dump({'h': h, 'w': w, 'py': py, 'px': px, 'fname': 'raytracing', 'fan': fan, 'params': params,
                           'masks': code_masks('raytracing', h, w, py, px, params)}, f, separators=(',', ':'))
            jobs.append(dict(module='VisTable', cfg=cfg, env={'TRACE_FILE': path}, workers=1, timeout=3000, check=False, heap='4g'))
            labels.append((h, w, py, px, params, path))
    for (h, w, py, px, params, path), res in zip(labels, run_many(jobs, parallel=16)):
        if res.violated:
            ctx.drift(f'raytracing with parameters {params} on a {h}x{w} view from ({py},{px}) differs from RaytracingThr of the specification')
        elif res.rc != 0:
            raise RuntimeError(res.raw[-2000:])
        ctx.add_tlc(res, f'VisTable[thresholds] {h}x{w} {params}')
        os.remove(path)
    ctx.add_part('thresholded raytracing variants', views=len(views), parameter_sets=len(plist))


def hidden_or_outside_cells(st, area, ob):
    """world cells that the observation reports Hidden or that lie outside the view"""
    from harness import proj

    H, W = len(st['grid']), len(st['grid'][0])
    seen = set()
    (ymin, ymax), (xmin, xmax) = area
    rot = {'F': lambda p: (p[0], p[1]), 'B': lambda p: (-p[0], -p[1]), 'R': lambda p: (p[1], -p[0]), 'L': lambda p: (-p[1], p[0])}[st['ori']]
    for i in range(ymax - ymin + 1):
        for j in range(xmax - xmin + 1):
            d = rot((ymin + i, xmin + j))
            wy, wx = st['pos'][0] + d[0], st['pos'][1] + d[1]
            if 0 <= wy < H and 0 <= wx < W and ob['grid'][i][j]['t'] != 'Hidden':
                seen.add((wy, wx))
    return [(y, x) for y in range(H) for x in range(W) if (y, x) not in seen]


def run(ctx, replay=None):
    if replay:
        art = json.load(open(replay))['replay']
        if art.get('kind') == 'vistable':
            run_tables(ctx, [tuple(art['view'])])
            return
        return oc.replay_obs(ctx, replay, PREFIX)
    ctx.cov['rule'] = ('(i) visibility masks of the real partially_occluded / raytracing functions for ALL opacity patterns of small views, checked by TLC '
                       'against SelfVisible, ChainConnected (8-adjacency), Monotone, NonInterfering; (ii) metamorphic pairs on full observations: a hidden or '
                       'out-of-view world cell replaced by another object must leave the observation unchanged; (iii) stochastic variant within bounds; '
                       'distinct_nontrivial = distinct masks / observations with hidden and shown cells')
    ctx.assumptions += ['"adjacent" is read as 8-neighbour (the weakest reading)',
                        'the event random() == 0.0 of the stochastic variant (probability 2^-53 per cell) is not explored']
    rng = random.Random(ctx.seed)
    views = []
    shapes = [(2, 3), (3, 3), (4, 3), (3, 4)] if ctx.quick else [(2, 3), (3, 3), (4, 3), (3, 4), (3, 5), (5, 3), (4, 4)]
    for (h, w) in shapes:
        for px in range(w):
            views.append(('partially_occluded', h, w, h - 1, px))
        positions = [(h - 1, w // 2), (h - 1, 0)] if ctx.quick else [(y, x) for y in range(h) for x in range(w)]
        if h * w >= 15:
            positions = [(h - 1, w // 2), (h // 2, w // 2), (0, 0)]
        for (py, px) in positions:
            views.append(('raytracing', h, w, py, px))
    run_tables(ctx, views)
    # metamorphic pairs
    jobs = []
    n = 2000 if ctx.quick else 50000
    rid = 0
    tries = 0
    while rid < n and tries < 20 * n:
        tries += 1
        h, w = rng.randint(2, 9 if ctx.quick else 12), rng.randint(2, 9 if ctx.quick else 12)
        st = obs.random_state(rng, h, w, p_opaque=0.3)
        fname = rng.choice(['partially_occluded', 'raytracing'])
        if rng.random() < 0.5:
            a = [[-6, 0], [-3, 3]]
        elif not ctx.quick and rng.random() < 0.3:
            a = [[-8, 0], [-4, 4]]
        else:
            a = obs.random_area(rng, fname, maxext=3)
        outcome, ob = obs.observe(fname, a, st)
        if outcome != 'ok':
            continue
        cells = hidden_or_outside_cells(st, a, ob)
        if not cells:
            continue
        cell = rng.choice(cells)
        new_obj = rng.choice([steps.O('Wall'), steps.FLOOR, steps.O('Door', 1, 'RED'), steps.O('Key', 0, 'BLUE'), steps.O('Exit')])
        if new_obj == st['grid'][cell[0]][cell[1]]:
            new_obj = steps.O('Beacon', 0, 'GREEN')
        jobs.append(dict(kind='pair', rec_id=rid, fname=fname, area_json=a, st_json=st, cell=list(cell), new_obj=new_obj, want=['C06']))
        rid += 1
    oc.run_obs_part(ctx, 'pairs', jobs, PREFIX)
    # large views (beyond VisTable): the C06 predicates on the observation itself
    jobs = []
    big_areas = [[[-10, 0], [-5, 5]], [[-12, 0], [-6, 6]], [[-6, 0], [-7, 7]], [[-8, 0], [-6, 6]], [[-14, 0], [-7, 7]], [[-6, 0], [-3, 3]], [[-8, 0], [-4, 4]]]
    for k in range(120 if ctx.quick else 3000):
        h, w = rng.randint(6, 15), rng.randint(6, 15)
        st = obs.random_state(rng, h, w, p_opaque=rng.choice([0.05, 0.15, 0.3]))
        jobs.append(dict(kind='obs', rec_id=k, fname=rng.choice(['partially_occluded', 'raytracing']), area_json=rng.choice(big_areas), st_json=st, want=['C06']))
    oc.run_obs_part(ctx, 'large_views', jobs, PREFIX)
    # stochastic variant: bounds
    jobs = []
    for k in range(200 if ctx.quick else 5000):
        h, w = rng.randint(2, 8), rng.randint(2, 8)
        st = obs.random_state(rng, h, w, p_opaque=0.3)
        a = [[-6, 0], [-3, 3]] if rng.random() < 0.3 else obs.random_area(rng, 'stochastic_raytracing', maxext=3)
        jobs.append(dict(kind='obs', rec_id=k, fname='stochastic_raytracing', area_json=a, st_json=st, want=['C06'], seed=rng.randrange(2 ** 31)))
    oc.run_obs_part(ctx, 'stochastic', jobs, PREFIX)


if __name__ == '__main__':
    main(run, 'C06')
