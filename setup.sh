#!/bin/sh
# Offline setup: nothing to build (TLA+ modules are interpreted by TLC, the harness is pure python).
# Sanity checks only: tools present, specification parses, yaml shim agrees with PyYAML if one is around.
set -e
cd "$(dirname "$0")"
command -v java >/dev/null
test -f /opt/veriftools/tla/tla2tools.jar
mkdir -p work evidence replays
for m in GVConfigTable Trace_Step Trace_Reward Trace_Obs Trace_Rays Trace_Reset VisTable MC_Step MC_Obs MC_Rays MC_Win MC_Rep MC_Geom Trace_Rep Trace_Geom GVCache GVEnv GVMultiEnv GVHeap Trace_Space Trace_History Trace_Design Trace_Basics Trace_Returns GVRegistry GVRecording MC_SymLink; do
  (cd spec && java -cp /opt/veriftools/tla/tla2tools.jar:/opt/veriftools/tla/CommunityModules-deps.jar tla2sany.SANY $m.tla >/dev/null 2>&1) || { echo "SANY failed on $m"; exit 1; }
done
PYTHONPATH=/verif /venv/bin/python -W ignore -c "
from harness import boot, miniyaml
import glob, json
n = 0
for f in sorted(glob.glob(boot.REPO + '/yaml/*.yaml')) + sorted(glob.glob(boot.REPO + '/gym_gridverse/registered_envs/*.yaml')) + [boot.REPO + '/examples/coin_env.yaml']:
    miniyaml.safe_load(open(f).read()); n += 1
print('setup ok:', n, 'yaml files parsed by the shim')
"
